#!/usr/bin/env python3
"""Workload audit: which statements of /repo/src/cobra do the checks' workloads execute?

usage: tools/linecov.py run <tier> <seed> [Cxx...]   run the checks with CV_LINECOV set (shards dump their line sets)
       tools/linecov.py report [Cxx...] [--file frag]  merge and list, per file and function, the statements never executed

Not a verdict and not evidence: a planning aid that shows where a workload does not reach (statements executed in
forked pool workers are not seen)."""
import ast, glob, json, os, subprocess, sys
HERE = os.path.dirname(os.path.dirname(os.path.abspath(__file__)))
OUT = os.path.join(HERE, ".work", "linecov")
ALL = ["C%02d" % i for i in range(1, 21)]


def executable_lines(path):
    src = open(path).read()
    code = compile(src, path, "exec")
    lines = set()
    todo = [code]
    while todo:
        c = todo.pop()
        for _, _, ln in c.co_lines():
            if ln:
                lines.add(ln)
        todo += [k for k in c.co_consts if hasattr(k, "co_lines")]
    # drop docstring-only / def lines noise: keep statement starts only
    stm = set()
    funcs = []
    for node in ast.walk(ast.parse(src)):
        if isinstance(node, ast.stmt):
            stm.add(node.lineno)
        if isinstance(node, (ast.FunctionDef, ast.AsyncFunctionDef)):
            funcs.append((node.lineno, node.end_lineno, node.name))
    return lines & stm, funcs


def main():
    cmd = sys.argv[1]
    if cmd == "run":
        tier, seed = sys.argv[2], sys.argv[3]
        for p in sys.argv[4:] or ALL:
            d = os.path.join(OUT, p)
            subprocess.run(["rm", "-rf", d])
            env = dict(os.environ, CV_LINECOV=d, VERIF_SEED=seed)
            r = subprocess.run([os.path.join(HERE, "check"), p, tier], env=env, capture_output=True, text=True)
            print(p, "rc", r.returncode, (r.stdout.strip().splitlines() or [""])[-1][:160], flush=True)
    else:
        args = sys.argv[2:]
        frag = None
        if "--file" in args:
            i = args.index("--file"); frag = args[i + 1]; del args[i:i + 2]
        props = args or ALL
        hit = set()
        for p in props:
            for f in glob.glob(os.path.join(OUT, p, "*.json")):
                hit.update(tuple(x) for x in json.load(open(f)))
        tot = th = 0
        for path in sorted(glob.glob("/repo/src/cobra/**/*.py", recursive=True)):
            rel = path[len("/repo/src/"):]
            if "/test" in rel or (frag and frag not in rel):
                continue
            ex, funcs = executable_lines(path)
            miss = sorted(l for l in ex if (rel, l) not in hit)
            tot += len(ex); th += len(ex) - len(miss)
            print(f"{rel}: {len(ex) - len(miss)}/{len(ex)}")
            if frag:
                byf = {}
                for l in miss:
                    name = "<module>"
                    for a, b, n in sorted(funcs):
                        if a <= l <= b:
                            name = n
                    byf.setdefault(name, []).append(l)
                for n, ls in byf.items():
                    print("    ", n, ls)
        print("total", th, "/", tot)


main()
