#!/usr/bin/env python3
"""Self-validation: apply a property-breaking mutant to a scratch copy of /repo/src and
run a check against it (CV_COBRA_SRC), optionally the repository's tests as well.

usage: tools/mutant.py [--tests] [--tier quick] <mutant.json|all|Cxx> ...
mutant file: {"id","property","file","old","new","description"} (string replacement in
src/<file>), or {"patch": "<path to unified diff relative to /repo>"}.
Scratch copies live under /tmp and are removed immediately.
"""
import glob, json, os, shutil, subprocess, sys, tempfile

VERIF = os.path.dirname(os.path.dirname(os.path.abspath(__file__)))

def run_one(path, tests, tier):
    m = json.load(open(path))
    d = tempfile.mkdtemp(prefix="cvmut-")
    try:
        shutil.copytree("/repo/src", os.path.join(d, "src"))
        if "patch" in m:
            p = m["patch"] if os.path.isabs(m["patch"]) else os.path.join(os.path.dirname(path), m["patch"])
            r = subprocess.run(["patch", "-p1", "-s", "-d", d, "-i", p], capture_output=True, text=True)
            if r.returncode:
                return m, "PATCH-FAILED " + r.stdout[-300:] + r.stderr[-300:], None
        else:
            f = os.path.join(d, "src", m["file"])
            s = open(f).read()
            if s.count(m["old"]) != 1:
                return m, f"ANCHOR-NOT-UNIQUE ({s.count(m['old'])})", None
            open(f, "w").write(s.replace(m["old"], m["new"]))
        test_res = None
        if tests:
            env = dict(os.environ, PYTHONPATH=os.path.join(d, "src"))
            env.pop("COBRAPY_VERIF", None)
            sel = m.get("tests", "tests")
            r = subprocess.run(["/venv/bin/python", "-m", "pytest", "-q", "-x", "-p", "no:cacheprovider", "-n", "16", "--dist", "loadfile",
                                "--deselect", "tests/test_io/test_web", sel], cwd="/repo", env=env, capture_output=True, text=True)
            tail = r.stdout.strip().splitlines()[-1] if r.stdout.strip() else ""
            test_res = ("tests-pass" if r.returncode == 0 or " failed" not in tail else "TESTS-FAIL") + " [" + tail[-80:] + "]"
        env = dict(os.environ, CV_COBRA_SRC=os.path.join(d, "src"))
        outs = []
        for prop in m["property"].split(","):
            r = subprocess.run([os.path.join(VERIF, "check"), prop, tier], env=env, capture_output=True, text=True, cwd=VERIF)
            keys = [l.strip() for l in r.stdout.splitlines() if l.strip().startswith("key=")]
            verdict = "CAUGHT" if r.returncode == 1 and "VIOLATION" in r.stdout else ("MISSED" if r.returncode == 0 else f"rc={r.returncode}")
            outs.append(f"{prop}:{verdict}" + (f" ({len(keys)} keys, e.g. {keys[0][:110]})" if keys else ""))
        return m, "; ".join(outs), test_res
    finally:
        shutil.rmtree(d, ignore_errors=True)

def main():
    args = sys.argv[1:]
    tests = "--tests" in args
    tier = "quick"
    if "--tier" in args:
        tier = args[args.index("--tier") + 1]
    paths = []
    for a in args:
        if a.startswith("--") or a == tier:
            continue
        if a == "all":
            paths += sorted(p for p in glob.glob(os.path.join(VERIF, "mutants", "*.json")) if os.path.basename(p) != "results.json")
        elif os.path.exists(a):
            paths.append(a)
        else:
            paths += sorted(p for p in glob.glob(os.path.join(VERIF, "mutants", a + "*.json")) if os.path.basename(p) != "results.json")
    rp = os.path.join(VERIF, "mutants", "results.json")
    results = json.load(open(rp)) if os.path.exists(rp) else {}
    for p in paths:
        m, res, t = run_one(p, tests, tier)
        print(f"{os.path.basename(p):42s} {res}" + (f" | {t}" if t else ""), flush=True)
        e = results.setdefault(m.get("id", os.path.basename(p)), {})
        e["property"] = m["property"]; e["description"] = m.get("description", "")
        e[tier] = res[:260]
        if t:
            e["tests"] = t
        with open(rp, "w") as f:
            json.dump(results, f, indent=1, sort_keys=True)
    # evidence files were rewritten against scratch copies: they are not evidence
    print("NOTE: evidence/*.json were overwritten by mutant runs; re-run the checks on /repo before committing evidence")

if __name__ == "__main__":
    main()
