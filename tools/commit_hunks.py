#!/usr/bin/env python3
"""Commit a subset of the differences between /repo HEAD and given final files.

usage: commit_hunks.py -m MSG -d FINAL_DIR substr [substr ...]
For every file in FINAL_DIR (matched by basename against tracked files that differ),
the changed blocks (difflib opcodes HEAD -> final) whose old or new text contains one of
the substrings are applied to HEAD's version and committed.  The working tree is left
at HEAD + selected blocks for committed files (run again for further subsets).
"""
import difflib, os, subprocess, sys
args = sys.argv[1:]
msg = None; final_dir = None; subs = []
i = 0
while i < len(args):
    if args[i] == "-m": msg = args[i+1]; i += 2
    elif args[i] == "-d": final_dir = args[i+1]; i += 2
    else: subs.append(args[i]); i += 1
tracked = subprocess.run(["git", "ls-files"], cwd="/repo", capture_output=True, text=True).stdout.split()
nsel = 0
for fn in os.listdir(final_dir):
    # a file name with "__" is a full path (src__cobra__core__reaction.py), else a basename
    cands = [fn.replace("__", "/")] if "__" in fn and fn.replace("__", "/") in tracked else [t for t in tracked if os.path.basename(t) == fn and t.startswith("src/")]
    if len(cands) != 1: continue
    path = cands[0]
    head = subprocess.run(["git", "show", "HEAD:" + path], cwd="/repo", capture_output=True, text=True).stdout.splitlines(keepends=True)
    final = open(os.path.join(final_dir, fn)).read().splitlines(keepends=True)
    sm = difflib.SequenceMatcher(None, head, final, autojunk=False)
    out = []; changed = False
    for tag, i1, i2, j1, j2 in sm.get_opcodes():
        if tag == "equal":
            out += head[i1:i2]; continue
        old, new = "".join(head[i1:i2]), "".join(final[j1:j2])
        if any(s in old or s in new for s in subs):
            out += final[j1:j2]; nsel += 1; changed = True
        else:
            out += head[i1:i2]
    if changed:
        open(os.path.join("/repo", path), "w").write("".join(out))
        subprocess.run(["git", "add", path], cwd="/repo", check=True)
if not nsel:
    print("no block matched"); sys.exit(1)
subprocess.run(["git", "commit", "-q", "-m", msg], cwd="/repo", check=True)
print("committed", nsel, "blocks:", subprocess.run(["git", "log", "--oneline", "-1"], cwd="/repo", capture_output=True, text=True).stdout.strip())
