#!/usr/bin/env python3
"""tools/show.py <PROP> [substr] : compact view of replay witnesses."""
import json,glob,sys
prop=sys.argv[1]; sub=sys.argv[2] if len(sys.argv)>2 else ''
n=int(sys.argv[3]) if len(sys.argv)>3 else 7
for f in sorted(glob.glob(f'/verif/replays/{prop}-*.json')):
    w=json.load(open(f)); k=w['key']
    if sub and sub not in k: continue
    if sub.startswith('!') and sub[1:] in k: continue
    print('=====',k,'x',w['count'])
    wit=w['witness'] or {}
    print('   ',{a:wit.get(a) for a in ('start','base','case','dense','step') if a in wit})
    for t in (wit.get('trace') or [])[-n:]: print('     ',t['op'], str(t['args'])[:150], '|', (t['raised'] or '')[:120])
    for p in (wit.get('problems') or [])[:3]: print('     !!',str(p)[:260])
    for a in wit:
        if a not in ('start','base','case','dense','step','trace','problems','start_recipe'): print('     ',a,':',str(wit[a])[:300])
