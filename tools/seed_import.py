#!/usr/bin/env python3
"""usage: tools/seed_import.py Cxx k "summary" "trigger"   - copy /tmp/wt-Cxx/SEED/k into seeded/Cxx-k with a meta.json"""
import json, os, shutil, sys
HERE = os.path.dirname(os.path.dirname(os.path.abspath(__file__)))
prop, k, summary, trigger = sys.argv[1:5]
tag = os.environ.get("SEED_ROUND", "")  # e.g. r2 -> seeded/C03-r2-1
src = f"/tmp/wt-{prop}/SEED/{k}"
dst = os.path.join(HERE, "seeded", f"{prop}-{tag + '-' if tag else ''}{k}")
os.makedirs(dst, exist_ok=True)
for f in ("patch.diff", "demo.py", "notes.md"):
    shutil.copy(os.path.join(src, f), os.path.join(dst, f))
m = {"id": os.path.basename(dst), "property": prop, "summary": summary, "trigger": trigger,
     "origin": "fresh sub-agent given only the property text and a scratch worktree"}
json.dump(m, open(os.path.join(dst, "meta.json"), "w"), indent=1, sort_keys=True)
print("imported", dst)
