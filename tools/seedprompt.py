#!/usr/bin/env python3
"""usage: tools/seedprompt.py <tag> Cxx...   - for each property: create the scratch worktree /tmp/wt-Cxx of /repo HEAD
and write /tmp/wt-Cxx/TASK.md: the property record (nothing from /verif's machinery), the task, and the one-line
summaries of the changes earlier rounds already produced (so that a new round looks elsewhere).
Import afterwards with SEED_ROUND=<tag> tools/seed_import.py Cxx k "summary" "trigger"."""
import glob, json, os, subprocess, sys
HERE = os.path.dirname(os.path.dirname(os.path.abspath(__file__)))
tag, props = sys.argv[1], sys.argv[2:]
P = {json.loads(l)["id"]: json.loads(l) for l in open(os.path.join(HERE, "properties.jsonl"))}
prev = {}
for f in sorted(glob.glob(os.path.join(HERE, "seeded/*/meta.json"))) + sorted(glob.glob(os.path.join(HERE, "seeded/_superseded/*/meta.json"))):
    m = json.load(open(f))
    prev.setdefault(m["property"], []).append(m["summary"])

T = """You are helping to test a verification harness by producing realistic regression patches ("seeded defects") for the open-source Python library cobrapy (constraint-based metabolic modelling). You work ONLY inside your own scratch git worktree at {wt} (a checkout of the repository; library source in src/cobra, tests in tests/). Do NOT read, list or modify /repo, /verif, or anything else outside {wt} (reading the Python environment under /venv is fine).

THE PROPERTY ({pid}): {title}
Statement: {statement}
Quantifier: {quant}
Why unit tests cannot settle it: {why}
Anchors in the code: {anchors}

TASK: produce up to 3 *different* source changes (independent of each other; each one a separate patch against the pristine worktree HEAD) to files under src/cobra such that each change
 (a) breaks the property above on the real code (observable through the public API),
 (b) still imports/compiles and passes the repository's existing test-suite, unedited (do not touch tests/),
 (c) is realistic: the kind of slip a maintainer could make in a refactoring, optimisation, clean-up or bug fix (wrong branch, forgotten undo entry, stale cache, swapped arguments, wrong default, lost edge case, off-by-one, wrong variable reused, too-eager short-cut ...) - not sabotage (no special-casing of particular ids, no random behaviour, no environment checks),
 (d) needs something specific to manifest: a multi-step sequence of operations, an unusual input shape, an option combination, a particular model state, a failure/exception path at a particular point, a particular schedule of worker processes, or TWO COOPERATING SITES that each look fine alone - so that a smoke test on the textbook model with default options would not notice.
Make the changes diverse (different functions / mechanisms). Prefer subtle ones. If after honest effort you can only find 1 or 2 that pass the test-suite, deliver those.

HOW TO RUN THINGS: the interpreter is /venv/bin/python (Python 3.12). cobra is an editable install that points at a different checkout, so you must ALWAYS set PYTHONPATH={wt}/src to run against your worktree; verify once with: cd {wt} && PYTHONPATH={wt}/src /venv/bin/python -c "import cobra; print(cobra.__file__)". Run the test-suite from the worktree with:
  mkdir -p {wt}/.tmp && cd {wt} && TMPDIR={wt}/.tmp PYTHONPATH={wt}/src /venv/bin/python -m pytest -q -p no:cacheprovider -n 4 --dist loadfile --deselect tests/test_io/test_web tests
(about 2-4 minutes; on the pristine tree everything passes - roughly 500 passed plus some skipped; a patch is acceptable only if there are no failures/errors). The private TMPDIR matters: tests/test_io writes fixed file names into the temp directory and other people run the same suite on this machine at the same time; without it you will see spurious FileNotFoundError errors in tests/test_io/test_sbml.py. There is no network. Solvers: only glpk (and glpk_exact) through optlang. scipy is not installed. cobra.io.load_model("textbook") works offline; other bundled models must be read by explicit path from src/cobra/data or tests/data. Nothing can be pip-installed.

DELIVERABLES: for each change k = 1, 2, 3 create directory {wt}/SEED/k/ containing
 - patch.diff : output of "git diff" against HEAD (paths relative to the repository root so that "git apply patch.diff" works from the root), touching only files under src/cobra
 - demo.py : a standalone script that, run as "PYTHONPATH=<some checkout>/src /venv/bin/python demo.py", prints "PROPERTY HOLDS" and exits 0 on the pristine tree, and prints "PROPERTY BROKEN: <what was observed>" and exits 1 on the patched tree. It must show a violation of the property as stated above, using only the public API (build small models in the script where possible).
 - notes.md : a few lines - what was changed, why it is a realistic slip, what specific condition it needs to manifest, and the final pytest summary line obtained with the patch applied.
Never use "git stash" (the stash is shared with other people's worktrees of this repository). After saving each patch, restore the source ("git checkout -- src") so that the patches are independent, and confirm demo.py says PROPERTY HOLDS on the restored tree. At the end leave the worktree clean apart from SEED/ and .tmp/.

REPORT BACK (short): one line per delivered change (file/function, mechanism, trigger condition) plus the pytest summary line for each.
"""
for pid in props:
    wt = f"/tmp/wt-{pid}"
    if not os.path.isdir(wt):
        subprocess.run(["git", "-C", "/repo", "worktree", "add", "-q", "--detach", wt, "HEAD"], check=True)
    p = P[pid]
    q = p.get("quantifier", {})
    text = T.format(wt=wt, pid=pid, title=p["title"], statement=p["statement"],
                    quant=q.get("text", q) if isinstance(q, dict) else q, why=p.get("why_tests_cant", ""),
                    anchors=p.get("anchors", ""))
    if prev.get(pid):
        text += ("\nEARLIER ROUNDS already produced the following changes for this property. Do NOT repeat them or close variants "
                 "of them; find changes in other functions, other mechanisms, other trigger conditions (the more unlike these, the better):\n"
                 + "".join(f" - {s}\n" for s in prev[pid]))
    open(os.path.join(wt, "TASK.md"), "w").write(text)
    print(wt, len(text))
