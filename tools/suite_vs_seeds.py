#!/usr/bin/env python3
"""Development aid: which seeded changes does the "suite" workload (the repository's tests under the property's monitor) catch
on its own?  For every seeded/<id> whose property has a suite monitor: scratch copy of /repo HEAD + patch, `CV_ONLY_SUITE=1 ./check`.
Result goes to meta.json under checks[prop]["suite-only@scratch"].  usage: tools/suite_vs_seeds.py [tier] [id-prefix...]"""
import glob, json, os, shutil, subprocess, sys, tempfile
HERE = os.path.dirname(os.path.dirname(os.path.abspath(__file__)))
sys.path.insert(0, HERE)
from cv import suiterun

args = sys.argv[1:]
tier = args.pop(0) if args and args[0] in ("quick", "thorough") else "quick"
for d in sorted(glob.glob(os.path.join(HERE, "seeded", "C*"))):
    sid = os.path.basename(d)
    if args and not any(sid.startswith(a) for a in args):
        continue
    mp = os.path.join(d, "meta.json")
    m = json.load(open(mp))
    prop = m["property"]
    if prop not in suiterun.EVALS:
        continue
    tmp = tempfile.mkdtemp(prefix="suiteseed-")
    try:
        subprocess.run(f"git -C /repo archive HEAD src | tar -x -C {tmp}", shell=True, check=True)
        r = subprocess.run(["patch", "-p1", "-s", "-d", tmp, "-i", os.path.join(d, "patch.diff")], capture_output=True, text=True)
        if r.returncode:
            print(sid, "patch does not apply"); continue
        env = dict(os.environ, CV_ONLY_SUITE="1", CV_COBRA_SRC=os.path.join(tmp, "src"))
        env.pop("PYTHONPATH", None)
        r = subprocess.run([os.path.join(HERE, "check"), prop, tier], cwd=HERE, env=env, capture_output=True, text=True)
        keys = [l.strip().split()[0][4:] for l in r.stdout.splitlines() if l.strip().startswith("key=")]
        verdict = "CAUGHT" if r.returncode == 1 and "VIOLATION" in r.stdout else ("MISSED" if r.returncode == 0 else f"rc={r.returncode}")
        m = json.load(open(mp))
        m.setdefault("checks", {}).setdefault(prop, {})[f"suite-only-{tier}@scratch"] = verdict
        if verdict == "CAUGHT":
            m["checks"][prop][f"suite-only-{tier}_keys"] = keys[:4]
        json.dump(m, open(mp, "w"), indent=1, sort_keys=True); open(mp, "a").write("\n")
        print(f"{sid:14s} {prop} suite-only {tier}: {verdict} {keys[:2] if verdict == 'CAUGHT' else ''}", flush=True)
    finally:
        shutil.rmtree(tmp, ignore_errors=True)
