#!/bin/sh
# usage: tools/scratchseed.sh <seed-id> [Cxx] [tier]  - development aid: run a check against a scratch copy of /repo's HEAD with a
# seeded patch applied (CV_COBRA_SRC), without touching /repo's working tree.  The record that counts is made by tools/seeded.py run.
sid=$1; prop=${2:-$(echo $sid | cut -c1-3)}; tier=${3:-quick}
d=$(mktemp -d /tmp/scratchseed-XXXXXX)
git -C /repo archive HEAD src | tar -x -C $d
patch -p1 -s -d $d -i /verif/seeded/$sid/patch.diff || exit 3
cd /verif && CV_COBRA_SRC=$d/src ./check $prop $tier 2>&1 | grep -v "^KNOWN-FINDING" | tail -${TAILN:-4} | cut -c1-400
rm -rf $d
