#!/usr/bin/env python3
"""Run the repository's pinned baseline suite (guard OFF) and compare with BASELINE.json.

usage: tools/baseline.py [-n JOBS]
exit 0 iff every test in BASELINE.stable_pass passed.
"""
import json
import os
import subprocess
import sys
import tempfile
import xml.etree.ElementTree as ET

jobs = "16"
if "-n" in sys.argv:
    jobs = sys.argv[sys.argv.index("-n") + 1]
b = json.load(open("/root/.vp/BASELINE.json"))
want = set(b["stable_pass"])
with tempfile.TemporaryDirectory() as d:
    xml = os.path.join(d, "j.xml")
    env = dict(os.environ)
    for k in ("COBRAPY_VERIF", "CV_COBRA_SRC", "PYTHONPATH"):
        env.pop(k, None)
    cmd = [
        "/venv/bin/python", "-m", "pytest", "-q", "-p", "no:cacheprovider", "--timeout=900",
        "--continue-on-collection-errors", f"--junitxml={xml}",
    ]
    if jobs != "1":
        cmd += ["-n", jobs, "--dist", "loadfile"]
    r = subprocess.run(cmd, cwd="/repo", env=env, capture_output=True, text=True)
    passed = set()
    for tc in ET.parse(xml).getroot().iter("testcase"):
        if not any(c.tag in ("failure", "error", "skipped") for c in tc):
            passed.add(f"{tc.get('classname')}::{tc.get('name')}")
missing = sorted(want - passed)
print(f"baseline: {len(want & passed)}/{len(want)} stable tests passed; pytest rc={r.returncode}")
for m in missing[:20]:
    print("  NOT PASSED:", m)
sys.exit(1 if missing else 0)
