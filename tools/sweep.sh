#!/bin/sh
# usage: tools/sweep.sh <tier> <seed> [props...]   - run checks one after the other, print the summary lines
cd "$(dirname "$0")/.."
tier=$1; seed=$2; shift 2
props=${*:-C01 C02 C03 C04 C05 C06 C07 C08 C09 C10 C11 C12 C13 C14 C15 C16 C17 C18 C19 C20}
for p in $props; do
  VERIF_SEED=$seed ./check $p $tier > .work/sweep-$p-$tier-$seed.log 2>&1
  rc=$?
  echo "rc=$rc $(grep -c '^KNOWN-FINDING' .work/sweep-$p-$tier-$seed.log) known | $(tail -1 .work/sweep-$p-$tier-$seed.log | cut -c1-200)"
  grep "^VIOLATION\|^INCONCLUSIVE" .work/sweep-$p-$tier-$seed.log | head -5
done
