#!/usr/bin/env python3
"""Seeded property-breaking changes (made by sub-agents that saw only the property text).

layout: /verif/seeded/<id>/{patch.diff, demo.py, notes.md, meta.json}
meta.json: {"id", "property", "summary", "trigger", "tests": "<pytest summary with patch>",
            "demo": {"pristine": 0, "patched": 1}, "checks": {"Cxx": {"quick": "CAUGHT|MISSED", ...}}}

usage:
  tools/seeded.py verify <id>...      apply in a scratch worktree under /tmp: baseline tests must still pass,
                                      demo.py must say HOLDS on pristine and BROKEN on patched; worktree removed
  tools/seeded.py run [--tier quick|thorough] [--props C01,C02] <id|all>...
                                      git -C /repo apply patch.diff; run the checks; git -C /repo checkout -- .
Results are written back into meta.json.  Evidence files written while a patch is applied are
not evidence: re-run the checks on the clean tree before committing evidence.
"""
import glob, json, os, shutil, subprocess, sys, tempfile
import xml.etree.ElementTree as ET

VERIF = os.path.dirname(os.path.dirname(os.path.abspath(__file__)))
SEEDED = os.path.join(VERIF, "seeded")


def sh(cmd, **kw):
    return subprocess.run(cmd, capture_output=True, text=True, **kw)


def meta_of(sid):
    p = os.path.join(SEEDED, sid, "meta.json")
    return json.load(open(p)) if os.path.exists(p) else {"id": sid}


def save_meta(sid, m):
    with open(os.path.join(SEEDED, sid, "meta.json"), "w") as f:
        json.dump(m, f, indent=1, sort_keys=True)
        f.write("\n")


def clean_env():
    env = dict(os.environ)
    for k in ("COBRAPY_VERIF", "CV_COBRA_SRC", "PYTHONPATH"):
        env.pop(k, None)
    return env


def verify(sid):
    d = os.path.join(SEEDED, sid)
    patch = os.path.join(d, "patch.diff")
    demo = os.path.join(d, "demo.py")
    wt = tempfile.mkdtemp(prefix="seedverify-")
    os.rmdir(wt)
    m = meta_of(sid)
    try:
        r = sh(["git", "-C", "/repo", "worktree", "add", "-q", "--detach", wt, "HEAD"])
        assert r.returncode == 0, r.stderr
        env = clean_env()
        env["PYTHONPATH"] = os.path.join(wt, "src")
        # tests/test_io writes fixed file names into the temp dir: keep concurrent runs apart
        env["TMPDIR"] = os.path.join(wt, ".tmp")
        os.makedirs(env["TMPDIR"], exist_ok=True)
        r0 = sh(["/venv/bin/python", demo], env=env, cwd=wt, timeout=900)
        r = sh(["git", "-C", wt, "apply", patch])
        if r.returncode:
            m["verify"] = "PATCH-FAILED: " + r.stderr[-300:]
            save_meta(sid, m)
            return m
        touched = sh(["git", "-C", wt, "diff", "--name-only"]).stdout.split()
        r1 = sh(["/venv/bin/python", demo], env=env, cwd=wt, timeout=900)
        b = json.load(open("/root/.vp/BASELINE.json"))
        want = set(b["stable_pass"])
        xml = os.path.join(wt, "j.xml")
        rt = sh(["/venv/bin/python", "-m", "pytest", "-q", "-p", "no:cacheprovider", "--timeout=900",
                 "--continue-on-collection-errors", f"--junitxml={xml}", "-n", "8", "--dist", "loadfile"],
                env=env, cwd=wt)
        passed = set()
        for tc in ET.parse(xml).getroot().iter("testcase"):
            if not any(c.tag in ("failure", "error", "skipped") for c in tc):
                passed.add(f"{tc.get('classname')}::{tc.get('name')}")
        missing = sorted(want - passed)
        m["files"] = touched
        m["demo"] = {"pristine": r0.returncode, "patched": r1.returncode,
                     "patched_says": (r1.stdout.strip().splitlines() or [""])[-1][:300]}
        m["tests"] = {"stable_passed": len(want & passed), "stable_total": len(want), "not_passed": missing[:10]}
        ok = r0.returncode == 0 and r1.returncode == 1 and not missing and all(t.startswith("src/") for t in touched)
        m["verify"] = "CONFIRMED" if ok else "REJECTED"
        save_meta(sid, m)
        return m
    finally:
        sh(["git", "-C", "/repo", "worktree", "remove", "--force", wt])
        shutil.rmtree(wt, ignore_errors=True)


def rebase(sid):
    """If patch.diff no longer applies with `git apply` to the current /repo (fix commits
    moved the context), re-create it in a scratch worktree with patch(1) + `git diff`."""
    d = os.path.join(SEEDED, sid)
    patch = os.path.join(d, "patch.diff")
    if sh(["git", "-C", "/repo", "apply", "--check", patch]).returncode == 0:
        return "applies"
    wt = tempfile.mkdtemp(prefix="seedrebase-")
    os.rmdir(wt)
    try:
        assert sh(["git", "-C", "/repo", "worktree", "add", "-q", "--detach", wt, "HEAD"]).returncode == 0
        r = sh(["patch", "-p1", "-s", "--no-backup-if-mismatch", "-d", wt, "-i", patch])
        if r.returncode:
            return "DOES-NOT-APPLY: " + (r.stdout + r.stderr)[-200:]
        new = sh(["git", "-C", wt, "diff"]).stdout
        shutil.copy(patch, os.path.join(d, "patch.orig.diff"))
        with open(patch, "w") as f:
            f.write(new)
        m = meta_of(sid)
        m["rebased_on"] = sh(["git", "-C", "/repo", "log", "--format=%h", "-1"]).stdout.strip()
        save_meta(sid, m)
        return "rebased"
    finally:
        sh(["git", "-C", "/repo", "worktree", "remove", "--force", wt])
        shutil.rmtree(wt, ignore_errors=True)


def run_scratch(sid, tier, props):
    """Same as run() but against a scratch copy of /repo/src (CV_COBRA_SRC) - for use while
    something else is running against /repo.  Results are stored under '<tier>@scratch'."""
    d = os.path.join(SEEDED, sid)
    m = meta_of(sid)
    props = props or m["property"].split(",")
    tmp = tempfile.mkdtemp(prefix="seedscratch-")
    try:
        shutil.copytree("/repo/src", os.path.join(tmp, "src"))
        r = sh(["patch", "-p1", "-s", "-d", tmp, "-i", os.path.join(d, "patch.diff")])
        assert r.returncode == 0, r.stdout + r.stderr
        env = clean_env()
        env["CV_COBRA_SRC"] = os.path.join(tmp, "src")
        for prop in props:
            r = sh([os.path.join(VERIF, "check"), prop, tier], cwd=VERIF, env=env)
            keys = [l.strip() for l in r.stdout.splitlines() if l.strip().startswith("key=")]
            verdict = "CAUGHT" if r.returncode == 1 and "VIOLATION" in r.stdout else ("MISSED" if r.returncode == 0 else f"rc={r.returncode}")
            m.setdefault("checks", {}).setdefault(prop, {})[tier + "@scratch"] = verdict
            print(f"{sid:28s} {prop} {tier}@scratch: {verdict}" + (f"  e.g. {keys[0][:140]}" if keys and verdict == "CAUGHT" else ""), flush=True)
    finally:
        shutil.rmtree(tmp, ignore_errors=True)
    save_meta(sid, m)


def run(sid, tier, props):
    d = os.path.join(SEEDED, sid)
    m = meta_of(sid)
    props = props or m["property"].split(",")
    st = sh(["git", "-C", "/repo", "status", "--porcelain", "--untracked-files=no"]).stdout.strip()
    assert not st, "/repo working tree is not clean:\n" + st
    r = sh(["git", "-C", "/repo", "apply", os.path.join(d, "patch.diff")])
    assert r.returncode == 0, r.stderr
    try:
        for prop in props:
            r = sh([os.path.join(VERIF, "check"), prop, tier], cwd=VERIF, env=clean_env())
            keys = [l.strip() for l in r.stdout.splitlines() if l.strip().startswith("key=")]
            fresh = [k for k in keys if "KNOWN" not in k]
            verdict = "CAUGHT" if r.returncode == 1 and "VIOLATION" in r.stdout else ("MISSED" if r.returncode == 0 else f"rc={r.returncode}")
            m.setdefault("checks", {}).setdefault(prop, {})[tier] = verdict
            if verdict == "CAUGHT":
                m["checks"][prop][tier + "_keys"] = sorted({k.split()[0][4:] for k in keys})[:6]
            print(f"{sid:28s} {prop} {tier}: {verdict}" + (f"  e.g. {keys[0][:140]}" if keys and verdict == "CAUGHT" else ""), flush=True)
    finally:
        sh(["git", "-C", "/repo", "checkout", "--", "."])
    save_meta(sid, m)


def main():
    a = sys.argv[1:]
    mode = a.pop(0)
    tier = "quick"
    props = None
    if "--tier" in a:
        i = a.index("--tier"); tier = a[i + 1]; del a[i:i + 2]
    if "--props" in a:
        i = a.index("--props"); props = a[i + 1].split(","); del a[i:i + 2]
    ids = []
    for x in a:
        if x == "all":
            ids += sorted(os.path.basename(p) for p in glob.glob(os.path.join(SEEDED, "*")) if os.path.isdir(p) and not os.path.basename(p).startswith("_"))
        else:
            ids += sorted(os.path.basename(p) for p in glob.glob(os.path.join(SEEDED, x + "*")) if os.path.isdir(p) and not os.path.basename(p).startswith("_"))
    for sid in ids:
        if mode == "rebase":
            print(f"{sid:28s} {rebase(sid)}", flush=True)
            continue
        if mode == "verify":
            m = verify(sid)
            print(f"{sid:28s} {m.get('verify')} demo={m.get('demo')} tests={m.get('tests')}", flush=True)
        elif mode == "scratch":
            run_scratch(sid, tier, props)
        else:
            run(sid, tier, props)
    if mode in ("run", "scratch"):
        print("NOTE: evidence/*.json were overwritten while patches were applied; re-run the checks on the clean tree before committing evidence")


if __name__ == "__main__":
    main()
