#!/bin/sh
# Run every committed probe (probes/<PROP>/*.json) on its own and say whether it still
# reproduces the recorded known finding.  usage: tools/probes.py
HERE="$(cd "$(dirname "$0")/.." && pwd)"
cd "$HERE" && [ -d .deps/icontract ] || ./setup.sh >/dev/null
PYTHONPATH="$HERE/.deps:$HERE" PYTHONHASHSEED=0 PYTHONWARNINGS=ignore COBRAPY_VERIF=1 /venv/bin/python - <<'PY'
import glob, importlib, json, os, warnings
warnings.simplefilter("ignore")
from cv.acc import Acc
bad = 0
for d in sorted(glob.glob("probes/*")):
    prop = os.path.basename(d)
    mod = importlib.import_module("cv.props." + prop.lower())
    for f in sorted(glob.glob(d + "/*.json")):
        pr = json.load(open(f)); acc = Acc()
        mod.run_probe(pr, acc)
        ok = pr["expect_key"] in acc.violations
        bad += not ok
        print(f"{prop} {pr['name']:55s} {'reproduces ' + pr['expect_key'] if ok else 'DOES NOT REPRODUCE; observed ' + str(list(acc.violations))}")
raise SystemExit(1 if bad else 0)
PY
