#!/usr/bin/env python3
"""Regenerate MANIFEST.json from the table below (keeps it valid at all times)."""
import json, os, sys
HERE = os.path.dirname(os.path.dirname(os.path.abspath(__file__)))

CHECKS = {
 "C01": dict(
   level="exploration",
   text="Invariant at quiescent points: after every step of seeded histories of public operations (50 operation kinds incl. failing forms - also identifiers the solver refuses or already uses -, merges with untidy right-hand models, nested contexts, copy/deepcopy/pickle/merge, glpk<->glpk_exact) the raw GLPK problem is read back with swiglpk and compared with the FBA problem implied by the Python-side data plus a ledger of explicit user additions; sparse histories (observed only at the end) cover optlang's lazy update queue; native aborts are attributed to the running operation through a journal.",
   note="Trusted: the observer (swiglpk read-back) and the S2 comparison; columns/rows matched through public accessors; tolerance 1e-12 relative; +-DBL_MAX treated as infinite. Sampled histories, not exhaustive.",
   technique="runtime invariant monitor over seeded operation histories (raw solver read-back)",
   ref="DESIGN.md §4 C01"),
 "C02": dict(
   level="exploration",
   text="Reference-model monitor in lock-step with the real Model: an abstract state (reactions with stoichiometry/bounds/rule, metabolites, genes, groups, objective, cross references by id) is advanced by a transition per documented editing operation (each quoting its docstring sentence) and compared with the model's abstraction after every step of seeded histories (1-25 operations, every argument shape of the catalogue incl. copies, foreign objects, failing forms, nested contexts); cross-reference symmetry and unchanged-on-raise are judged at every step.",
   note="Trusted: the reference transitions in cv/refmodel.py (my reading of the docstrings). Fields the documentation leaves open are not compared; list order not compared.",
   technique="runtime reference-model monitor over seeded edit histories + cross-reference invariant",
   ref="DESIGN.md §4 C02"),
 "C03": dict(
   level="fault_enumeration",
   text="Invariant at a hook: Model.__enter__/__exit__ are wrapped; a whole-state snapshot (content by id, cross references, raw GLPK problem) taken at every __enter__ is compared with the state after the matching __exit__, for blocks of documented-reversible operations in 1-3 nested contexts that end normally, by an exception between operations, or by an operation raising by itself; the snapshot includes the solver objective's name (constraints are keyed on it). Failing blocks are minimised to the triggering operation.",
   note="Trusted: snapshot/diff code; list order ignored as the property allows; floats compared to 1e-12 relative. Fault points: between operations and failing operations, not asynchronous interruption inside an operation.",
   technique="runtime invariant at context enter/exit hooks with fault workloads",
   ref="DESIGN.md §4 C03"),
 "C04": dict(
   level="exploration",
   text="Runtime contracts (icontract ensure) on the real Model.optimize / Model.slim_optimize: on every call the FBA problem is rebuilt from Python-side data and solved by an exact rational simplex whose result is re-certified (primal/dual feasibility, Farkas vector, improving ray); status, value, primal feasibility, the dual certificate computed from the reported shadow prices, the reduced-cost identity, per-object accessors and snapshot semantics of Solution are judged. Warm-start chains (6-16 edits of one solver object crossing optimal/infeasible/unbounded, a judged call after each) exercise stale bases. Bundled models are judged by the float duality certificate (no reference solver).",
   note="Trusted: ~60-line certificate checker in exactlp.certify, not the simplex. Tolerances 1e-6 relative on values, 10x model tolerance on feasibility; generated data are dyadic rationals so every verdict is far from thresholds.",
   technique="runtime contracts (icontract) + exact certified LP oracle",
   ref="DESIGN.md §4 C04"),
 "C05": dict(
   level="exploration",
   text="Exact oracle monitor: every flux_variability_analysis call of the workload (subsets as objects/ids/single/reversed, fraction 1/0.9/0.5/0, pfba_factor, loopless, 1-3 processes) is compared with exact rational FVA; loopless ranges with the exact union over all thermodynamically feasible sign patterns of the internal-cycle reactions (energy-balance LP per pattern); known-finding classifier for loopless FVA proves one of three structural mechanisms, everything else is fresh; implied facts (min<=max, optimal FBA flux inside, loopless inside plain, frame index) on every call incl. textbook.",
   note="Trusted: exactlp certificates; exact null space by rational Gauss elimination. loopless exact only without forced loops and <= 6 cycle reactions; unbounded ranges skipped as out of domain.",
   technique="runtime oracle monitor (exact rational FVA / loopless enumeration)",
   ref="DESIGN.md §4 C05"),
 "C06": dict(
   level="exploration",
   text="Exact oracle monitor over result frames: every row of single/double gene/reaction deletions (fba and linear moma, 1/2/4 processes, lists as objects/ids/partial/with repeats) is compared with the exact optimum of the independently knocked-out problem (genes -> reactions through the generator's own rule trees); row bookkeeping (each unordered combination exactly once), the knockout accessor and find_essential_genes/reactions sets are judged too. Linear MOMA growth must lie in the exact interval of the old objective over all minimal-adjustment solutions.",
   note="Trusted: exactlp certificates, 10-line rule evaluator. Finite bounds; thresholds within 1e-4 of an exact growth are borderline-skipped (so < vs <= at an exact tie is not decided).",
   technique="runtime oracle monitor (exact LP per knock-out) + row bookkeeping checker",
   ref="DESIGN.md §4 C06"),
 "C07": dict(
   level="exploration",
   text="Independent oracle (truth table from the generator's own and/or tree) judged after every single knock-out: bounds of every reaction, gene.functional, reaction.functional and the solver's variable bounds; per generated model all gene subsets, all orders for subsets <= 4, four API forms plus mixed routes (every gene or chunk through its own form, genes flagged non-functional beforehand, a Model.copy between knock-outs), inside and outside a context (restore checked on exit).",
   note="Trusted: 10-line tree evaluator, raw GLPK read-back. Models with 1-6 genes; larger rule sets not covered.",
   technique="runtime oracle monitor over enumerated knock-out sequences",
   ref="DESIGN.md §4 C07"),
 "C08": dict(
   level="exploration",
   text="Independent truth-table oracle: every generated rule x spelling is parsed by the real GPR and judged on all 2^n knock-out subsets, again after to_string/str/copy/deepcopy/pickle-of-Reaction/symbolic round trips, on ==-pairs (equal => equivalent), and on remove_genes (surviving rule equivalent to the restriction); random trees over the awkward identifier classes the property lists plus all trees with <= 3/4 leaves over a 3-id alphabet.",
   note="Trusted: generator keeps the tree, evaluator is 10 lines. Identifier alphabet limited to the stated character classes; <= 7 genes per rule.",
   technique="runtime oracle monitor, bounded-exhaustive + random rules",
   ref="DESIGN.md §4 C08"),
 "C09": dict(
   level="exploration",
   text="Exact oracle monitor: pfba / linear moma / room results are compared with exact rational solutions of the documented formulations (pFBA: minimal total flux under the objective requirement, also with objective= and reactions=; MOMA: minimal summed distance to the given or captured default reference in wild-type and knock-out states; ROOM: minimal number of fluxes outside the band by exhaustive subset enumeration; linear ROOM: the documented relaxation); returned vectors are checked for feasibility in the model as given.",
   note="Trusted: exactlp certificates. ROOM exact up to a minimal count of 4; inputs where 1e-15 noise of the float reference decides the exact answer, or where a big-M coefficient (bound - w) is below 1e-7, are borderline-skipped (GLPK's unpresolved simplex is unreliable there).",
   technique="runtime oracle monitor (exact LP / exhaustive MILP enumeration)",
   ref="DESIGN.md §4 C09"),
 "C16": dict(
   level="exploration",
   text="Oracle monitor on every sample frame from ACHR/OptGP (sample(), sampler objects, batch(); reaction and variable space; n 1-50, thinning 1-100, repeated draws on one sampler object, equalities with non-zero right-hand side, ranges far narrower than their magnitude, small nproj to force re-projection, processes 1-4): each row is checked against the model's own constraints (bounds, S v = 0, extra linear constraints) recomputed from the model content, validate() codes are compared with that verdict, seeds must reproduce, and the model must be unchanged by sampling.",
   note="Trusted: ~40 lines recomputing feasibility with numpy from model content. Tolerance = sampler feasibility_tol; violation above 2x tolerance. Finite bounds; sampler give-ups (RuntimeError) counted, not judged.",
   technique="runtime oracle monitor (feasibility recomputation per sampled row)",
   ref="DESIGN.md §4 C16"),
 "C17": dict(
   level="exploration",
   text="Oracle monitor: every loopless_solution result is judged against its start vector (internal FBA vertex captured by a tap, pFBA, or a harness-built optimal vector with extra loop flux): feasibility, same objective, same boundary fluxes, no reversal, no growth in magnitude, and irreducibility by an exact LP (largest conformal internal cycle still removable under those conditions). add_loopless + optimize is compared with the exact optimum over all loop-free distributions (union over thermodynamically feasible sign patterns) and the reported solution is checked for conformal internal cycles by a support LP.",
   note="Trusted: exactlp, exact rational null space. add_loopless answers worse than the exact optimum are recorded as the known energy-cap finding only when re-solving exactly with |G_i| <= largest bound reproduces them. add_loopless part: <= 6 cycle reactions, finite bounds, zero threshold max_bound x tolerance x 10.",
   technique="runtime oracle monitor (exact cycle-removal LP, sign-pattern enumeration)",
   ref="DESIGN.md §4 C17"),
 "C18": dict(
   level="exploration",
   text="Oracle monitor: after every `model.medium = d` the bounds of ALL reactions are compared with the documented rule (listed exchange: import bound = value; unlisted: import closed; export side and non-exchanges untouched) for export-written, import-written and non-unit exchanges, and the getter must return exactly the positive imports. minimal_medium: None <=> exact LP infeasible; returned imports applied as the medium on a copy reach the target (exact); total import = exact LP minimum; number of components = exact minimum by exhaustive subset enumeration (with margin against float targets on a subset's threshold); exports only negative.",
   note="Trusted: exactlp. Exchanges on compartment 'e'; max objectives; <= 7 exchanges for component minimality.",
   technique="runtime oracle monitor (documented-rule reference + exact LP / subset enumeration)",
   ref="DESIGN.md §4 C18"),
 "C19": dict(
   level="exploration",
   text="Exact oracle monitor: blocked <=> exact rational FVA range [0,0] without objective requirement (exchanges opened to +-1000 when asked). find_blocked_reactions (list None/objects/ids/partial, open_exchanges, 1-2 processes) must return exactly the blocked ids; fastcc must keep exactly the unblocked reactions unchanged, leave none blocked, and not touch its input (whole-state snapshot).",
   note="Trusted: exactlp. Models whose bounds include zero; calls where a requested range is unbounded are domain-skipped; default thresholds.",
   technique="runtime oracle monitor (exact FVA without objective)",
   ref="DESIGN.md §4 C19"),
 "C10": dict(
   level="exploration",
   text="Round-trip monitor with four oracles (also under default bounds changed at run time, and for third-party document shapes made from the written file - a species referenced twice by a reaction - cross-checked by the independent reader): (a) the SBML validator on every written document (no SBML_FATAL/ERROR/SCHEMA_ERROR, no COBRA_FATAL/ERROR); (b) the re-read model's description equals the original's under the documented equivalences (floats to 15 significant digits, rules by truth table, annotations as provider->identifiers) and the raw GLPK problems agree by name; (c) a second round trip changes nothing, exactly; (d) shipped SBML files are cross-checked by an independent stdlib-XML reader (stoichiometry, fbc bounds, active objective) against the cobra model, differences count only if cobrapy logged no warning naming the element. Generated models carry awkward ids, groups of reactions/metabolites/genes, notes, annotations, bounds of every class; channels path/handle/string; default f_replace and f_replace={}.",
   note="Trusted: ioequiv, the 60-line independent XML reader (fbc-v2 only), libsbml's validator as the judge of validity.",
   technique="runtime round-trip monitor + SBML validator + independent reader",
   ref="DESIGN.md §4 C10"),
 "C11": dict(
   level="exploration",
   text="Round-trip monitor: generated models with every attribute class (awkward ids, bounds beyond the configured defaults / infinite / fixed, min and weighted objectives, nested rules over awkward gene ids, names, formulas, charges incl. 0, notes, annotations, subsystems, compartments) go through json/yaml (string, path, handle), dict and pickle (3 protocols), sort on/off, under four Configuration().bounds settings; the loaded model's description must equal the original's exactly (floats bit-identical, rules by truth table), the raw GLPK problems must agree by name, loading must not raise, and a second round trip must change nothing.",
   note="Trusted: ioequiv.describe/diff (150 lines), raw GLPK read-back. Groups compared for pickle only.",
   technique="runtime round-trip monitor with whole-model description equality",
   ref="DESIGN.md §4 C11"),
 "C12": dict(
   level="exploration",
   text="Three monitors on every copy (Model.copy, copy.deepcopy, pickle; groups, notes, nested annotation lists, user constraints, 0-2 contexts open at copy time): whole-state equivalence of copy and original (content, cross references, raw GLPK problem, tolerance); object-identity disjointness of reactions, metabolites, genes, groups, rules, notes/annotation containers incl. nested lists, compartment dictionary, solver variables/constraints/objective; and a taint test - values nested up to three levels deep, identifiers shared between kinds, knocked-out genes, 10-step histories of catalogue operations plus in-place mutations of every mutable attribute on one side with the snapshot of the other side compared after every step, then roles swapped; leaving the original's contexts must not touch the copy. Reaction.copy, Metabolite.copy, + - *: operands unchanged, results detached, editing results does not reach the model.",
   note="Trusted: snapshot/diff, id()-based sharing detector. Solver solution state not compared.",
   technique="runtime taint monitor (whole-state comparison of the untouched side after every step) + identity checker",
   ref="DESIGN.md §4 C12"),
 "C13": dict(
   level="fault_enumeration",
   text="Whole-state comparison around every analysis call (content, bounds, objective and direction, gene states, raw GLPK problem incl. left-over rows/columns, solver configuration and interface) for 43 analyses/argument forms (incl. models carrying a user's permanent fixed-objective constraint) on feasible, infeasible, unbounded, degenerate, empty and objective-less generated models, serial and with 2 processes, outside or inside a user context (whose exit must then restore the entry state); each call is made twice and the uniquely defined quantities compared (ties at thresholds decided exactly); an OptimizeTap asserts the core FBA invariant of C01 at every solve the analyses make.",
   note="Trusted: snapshot/diff. Big-M analyses (room, MIP minimal medium, gapfill) only on finite bounds (GLPK aborts on infinite coefficients); non-unique outputs not compared; production envelopes on infinite bounds not compared.",
   technique="runtime before/after whole-state monitor with failure-path workloads + solve-time invariant tap",
   ref="DESIGN.md §4 C13"),
 "C14": dict(
   level="exploration",
   text="Event-log checker over process-pool schedules: multiprocessing Pool methods and the task functions are tapped (PoolTap/TaskTap) to log every task with worker pid, start/end and the worker model's state before/after; for FVA, find_blocked_reactions, find_essential_*, single/double deletions (fba and linear MOMA with a fixed reference; MOMA growth that is not unique is recorded as a known finding only when both values lie in the exact admissible interval) the frame produced under each schedule (processes 1-8 x permuted item order x chunk size x seeded 0-5 ms delays) is compared with the serial result and with each item requested alone; exactly-once per item, no carry-over between tasks in a worker and an unchanged parent model are judged from the log.",
   note="Trusted: event log written in workers (append-only, one line per event), comparison 1e-6 relative. Orders sampled by perturbation, not enumerated; fork start method.",
   technique="offline event-log checker over tapped process-pool executions with injected delays",
   ref="DESIGN.md §4 C14"),
 "C15": dict(
   level="fault_enumeration",
   text="Reference-model monitor in lock-step with the real DictList: bounded-exhaustive operation sequences (every index in [-n-2,n+1], every slice, every failing argument position) plus seeded random long sequences; coherence, list-semantics equality and unchanged-on-raise judged after every step. Exhaustive within the stated bounds, sampled beyond.",
   note="Trusted: the ~150-line reference (Python list + uniqueness rule) and the coherence predicate, both public-API only. Bounds: lists <= 4 (exhaustive) / <= 34 (random), sequences <= 2 (quick) / 3 (thorough) exhaustive, <= 40 random.",
   technique="runtime reference-model monitor + icontract class invariant on the real DictList",
   ref="DESIGN.md §4 C15"),
 "C20": dict(
   level="exploration",
   text="Oracle monitor: uptake/secretion and producing/consuming frames are recomputed from the Solution and the model's content (every boundary reaction / reaction of the metabolite exactly once, side by sign of flux x coefficient, tolerance rule, FVA ranges x coefficient with min/max swap for negative coefficients, percentages, balance of totals, objective value) for given (FBA, pFBA, loopful) and defaulted (captured) solutions, fva none/float/frame; every model, metabolite and reaction summary is rendered as text, HTML, frame, str, _repr_html_ with names on/off and a threshold.",
   note="Trusted: ~60 lines recomputing the documented scaling. Generated models incl. non-unit/negative boundary coefficients, import-written exchanges, zero-flux reactions.",
   technique="runtime oracle monitor (recomputation from the Solution) + rendering workload",
   ref="DESIGN.md §4 C20"),
}
NOT_APPLICABLE = [
]

def main():
    checks = []
    sys.path.insert(0, HERE)
    from cv import suiterun
    for pid in sorted(CHECKS):
        c = dict(CHECKS[pid])
        if pid in suiterun.EVALS:
            c["text"] += (" Second workload in both tiers: the repository's own test-suite executed with this property's monitor armed on the real"
                          " classes/functions (cv/suitemon.py through the pytest plugin cv/suiteplugin.py; quick: selected test directories, thorough: the whole"
                          " suite); only what the monitor records counts, the tests' own outcomes do not; the shard is inconclusive when the monitor was evaluated"
                          " fewer than 20 times.")
            c["technique"] += " + the same monitor armed under the repository's own test-suite"
        checks.append({
            "property_id": pid,
            "quick_cmd": f"./check {pid} quick",
            "thorough_cmd": f"./check {pid} thorough",
            "evidence_file": f"/verif/evidence/{pid}.json",
            "replay_cmd_template": f"./check {pid} --replay {{path}}",
            "engine": "cv",
            "level_claimed": {"category": c["level"], "text": c["text"], "design_ref": c["ref"]},
            "level_note": c["note"],
            "technique": c["technique"],
        })
    props = [json.loads(l)["id"] for l in open(os.path.join(HERE, "properties.jsonl"))]
    na = list(NOT_APPLICABLE)
    claimed = set(CHECKS) | {x["property_id"] for x in na}
    for p in props:
        if p not in claimed:
            na.append({"property_id": p, "reason": "check not built yet in this session (work in progress; see DESIGN.md §4 for the planned runtime monitor)"})
    m = {
        "version": 1,
        "setup_cmd": "./setup.sh",
        "hooks": {
            "guard": "COBRAPY_VERIF",
            "enable": "no source hooks: every tap is applied from /verif by wrapping public cobra classes/functions at run time; ./check exports COBRAPY_VERIF=1 and runs /venv/bin/python against the editable install of /repo/src (nothing to rebuild)",
            "baseline_off_cmd": "/verif/tools/baseline.py",
            "source_commits": [],
            "add_only": True,
        },
        "engines": [{
            "name": "cv",
            "path": "/verif/cv",
            "serves_properties": sorted(CHECKS),
            "kind_free_text": "runtime monitors: reference models in lock-step, whole-state observers (objects + raw GLPK problem), exact rational LP oracle with certificates, event-log checkers for process pools; seeded workloads sharded over subprocesses",
        }],
        "checks": checks,
        "not_applicable": na,
        "notes": "Known findings: /verif/known_findings.txt. Self-validation patches: /verif/mutants, /verif/seeded.",
    }
    with open(os.path.join(HERE, "MANIFEST.json"), "w") as f:
        json.dump(m, f, indent=1)
        f.write("\n")
    try:
        sys.path.insert(0, os.path.join(HERE, ".deps"))
        import jsonschema
        jsonschema.validate(m, json.load(open("/root/.vp/MANIFEST.schema.json")))
        print("MANIFEST.json valid;", len(checks), "checks,", len(na), "not_applicable")
    except ImportError:
        print("written (jsonschema not available)")

if __name__ == "__main__":
    main()
