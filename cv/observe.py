"""S1 observer + S2 FBA reference.

snapshot(model) -> dict with three layers
  content : by identifier, order-free (+ list orders recorded separately)
  xref    : list of cross-reference inconsistencies (empty when consistent)
  lp      : the raw GLPK problem read with swiglpk (after solver.update())

fba_problems(model, ledger) -> list of discrepancies between the raw LP and the
flux-balance problem implied by the Python-side data (S2).
"""
import math

import swiglpk as glp

from cv.gen import gpr_genes  # noqa: F401  (re-export convenience)

INF = float("inf")
REL = 1e-12


def close(a, b, rel=REL):
    if a == b:
        return True
    if isinstance(a, float) and isinstance(b, float) and (math.isinf(a) or math.isinf(b)):
        return a == b
    return abs(a - b) <= rel * max(abs(a), abs(b))


# ----------------------------------------------------------------------------
# raw LP
# ----------------------------------------------------------------------------
def raw_lp(model, update=True):
    """Read the GLPK problem object behind model.solver.  Returns
    {"cols": {name: (lb, ub, kind)}, "rows": {name: (lb, ub, {colname: coef})},
     "obj": {colname: coef}, "obj_const": float, "dir": "max"|"min",
     "dup_cols": [...], "dup_rows": [...]}"""
    solver = model.solver
    if update:
        solver.update()
    P = solver.problem
    ncols = glp.glp_get_num_cols(P)
    nrows = glp.glp_get_num_rows(P)
    cols, colname, dup_cols = {}, [None] * (ncols + 1), []
    for j in range(1, ncols + 1):
        nm = glp.glp_get_col_name(P, j)
        colname[j] = nm
        t = glp.glp_get_col_type(P, j)
        lb, ub = _bounds(t, glp.glp_get_col_lb(P, j), glp.glp_get_col_ub(P, j))
        kind = {glp.GLP_CV: "continuous", glp.GLP_IV: "integer", glp.GLP_BV: "binary"}.get(
            glp.glp_get_col_kind(P, j), "?"
        )
        if nm in cols:
            dup_cols.append(nm)
        cols[nm] = (lb, ub, kind)
    rows, dup_rows = {}, []
    ia = glp.intArray(ncols + 1)
    da = glp.doubleArray(ncols + 1)
    for i in range(1, nrows + 1):
        nm = glp.glp_get_row_name(P, i)
        t = glp.glp_get_row_type(P, i)
        lb, ub = _bounds(t, glp.glp_get_row_lb(P, i), glp.glp_get_row_ub(P, i))
        k = glp.glp_get_mat_row(P, i, ia, da)
        coefs = {}
        for q in range(1, k + 1):
            if da[q] != 0:
                coefs[colname[ia[q]]] = da[q]
        if nm in rows:
            dup_rows.append(nm)
        rows[nm] = (lb, ub, coefs)
    obj = {}
    for j in range(1, ncols + 1):
        v = glp.glp_get_obj_coef(P, j)
        if v != 0:
            obj[colname[j]] = v
    cfg = {}
    try:
        c = solver.configuration
        for nm in ("presolve", "timeout", "lp_method", "verbosity"):
            if hasattr(c, nm):
                cfg[nm] = getattr(c, nm)
        t = c.tolerances
        for nm in ("feasibility", "optimality", "integrality"):
            if hasattr(t, nm):
                cfg["tol_" + nm] = getattr(t, nm)
    except Exception:
        pass
    return {
        "config": cfg,
        "interface": type(solver).__module__,
        "cols": cols,
        "rows": rows,
        "obj": obj,
        "obj_const": glp.glp_get_obj_coef(P, 0),
        "dir": "max" if glp.glp_get_obj_dir(P) == glp.GLP_MAX else "min",
        "dup_cols": dup_cols,
        "dup_rows": dup_rows,
    }


BIG = 1e300  # GLPK reports missing bounds as +-DBL_MAX; optlang hands that value on
             # when it re-reads a problem (Model.copy) - numerically "no bound" (trap T8)


def _bounds(t, lb, ub):
    lb, ub = _bounds0(t, lb, ub)
    return (-INF if lb <= -BIG else lb, INF if ub >= BIG else ub)


def _bounds0(t, lb, ub):
    if t == glp.GLP_FR:
        return (-INF, INF)
    if t == glp.GLP_LO:
        return (lb, INF)
    if t == glp.GLP_UP:
        return (-INF, ub)
    if t == glp.GLP_DB:
        return (lb, ub)
    return (lb, lb)  # GLP_FX


def optlang_view(model):
    """The same information through optlang's own objects (no swiglpk)."""
    solver = model.solver
    cols = {v.name: (_n(v.lb, -INF), _n(v.ub, INF), v.type) for v in solver.variables}
    rows = {}
    for c in solver.constraints:
        try:
            co = {v.name: float(k) for v, k in c.get_linear_coefficients(c.variables).items() if k != 0}
        except Exception:
            co = None
        rows[c.name] = (_n(c.lb, -INF), _n(c.ub, INF), co)
    try:
        oc = solver.objective.get_linear_coefficients(solver.objective.variables)
        obj = {v.name: float(k) for v, k in oc.items() if k != 0}
    except Exception:
        obj = None
    return {"cols": cols, "rows": rows, "obj": obj, "dir": solver.objective.direction}


def _n(x, default):
    if x is None:
        return default
    x = float(x)
    return -INF if x <= -BIG else (INF if x >= BIG else x)


def lp_diff(a, b, rel=REL, what=("cols", "rows", "obj", "dir")):
    """Readable differences between two raw LP dicts."""
    out = []
    if "cols" in what:
        for nm in sorted(set(a["cols"]) | set(b["cols"]), key=str):
            x, y = a["cols"].get(nm), b["cols"].get(nm)
            if x is None or y is None:
                out.append(f"column {nm}: {'missing' if x is None else x} -> {'missing' if y is None else y}")
            elif not (close(x[0], y[0], rel) and close(x[1], y[1], rel) and x[2] == y[2]):
                out.append(f"column {nm}: {x} -> {y}")
    if "rows" in what:
        for nm in sorted(set(a["rows"]) | set(b["rows"]), key=str):
            x, y = a["rows"].get(nm), b["rows"].get(nm)
            if x is None or y is None:
                out.append(f"row {nm}: {'missing' if x is None else 'present'} -> {'missing' if y is None else 'present'}")
                continue
            if not (close(x[0], y[0], rel) and close(x[1], y[1], rel)):
                out.append(f"row {nm}: bounds {x[:2]} -> {y[:2]}")
            for cn in sorted(set(x[2]) | set(y[2]), key=str):
                u, v = x[2].get(cn, 0.0), y[2].get(cn, 0.0)
                if not close(u, v, rel):
                    out.append(f"row {nm}: coef on {cn} {u} -> {v}")
    if "obj" in what:
        for cn in sorted(set(a["obj"]) | set(b["obj"]), key=str):
            u, v = a["obj"].get(cn, 0.0), b["obj"].get(cn, 0.0)
            if not close(u, v, rel):
                out.append(f"objective: coef on {cn} {u} -> {v}")
    if "dir" in what and a["dir"] != b["dir"]:
        out.append(f"objective direction {a['dir']} -> {b['dir']}")
    if "config" in what:
        if a.get("config") != b.get("config"):
            out.append(f"solver configuration {a.get('config')} -> {b.get('config')}")
        if a.get("interface") != b.get("interface"):
            out.append(f"solver interface {a.get('interface')} -> {b.get('interface')}")
    return out


# ----------------------------------------------------------------------------
# content + cross references
# ----------------------------------------------------------------------------
def _rule_key(reaction):
    """(text, frozenset genes, truth table or None)"""
    gpr = reaction.gpr
    genes = sorted(gpr.genes)
    tt = None
    if len(genes) <= 8:
        tt = tuple(
            bool(gpr.eval({g for i, g in enumerate(genes) if mask >> i & 1}))
            for mask in range(1 << len(genes))
        )
    return (tuple(genes), tt)


def _freeze(x):
    if isinstance(x, dict):
        return tuple(sorted((str(k), _freeze(v)) for k, v in x.items()))
    if isinstance(x, (list, tuple)):
        return tuple(_freeze(v) for v in x)
    if isinstance(x, set):
        return tuple(sorted(_freeze(v) for v in x))
    if isinstance(x, float) and x != x:
        return "nan"
    return x


def _live(g, r):
    try:
        return g.id in set(r.gpr.genes) and any(x is g for x in getattr(r, "_genes", ()))
    except Exception:
        return False


def content(model):
    from cobra.util.solver import linear_reaction_coefficients

    try:
        objc = {r.id: v for r, v in linear_reaction_coefficients(model).items()}
    except Exception as e:  # stale reaction in the list etc.
        objc = {"<error>": repr(e)}
    rx = {}
    for r in model.reactions:
        rx[r.id] = {
            "name": r.name,
            "subsystem": r.subsystem,
            "bounds": (r.lower_bound, r.upper_bound),
            "stoich": {m.id: v for m, v in r._metabolites.items()} if hasattr(r, "_metabolites") else {m.id: v for m, v in r.metabolites.items()},
            "rule": _rule_key(r),
            "rule_text": r.gene_reaction_rule,
            "genes": tuple(sorted(g.id for g in r.genes)),
            "obj": objc.get(r.id, 0.0),
            "notes": _freeze(r.notes),
            "annotation": _freeze(r.annotation),
        }
    mets = {}
    for m in model.metabolites:
        mets[m.id] = {
            "name": m.name,
            "formula": m.formula,
            "charge": m.charge,
            "compartment": m.compartment,
            "notes": _freeze(m.notes),
            "annotation": _freeze(m.annotation),
            "reactions": tuple(sorted(r.id for r in m.reactions)),
            # references to reactions that are not part of this model (e.g. the free
            # reaction the metabolite object was taken from)
            "outside_reactions": tuple(sorted(r.id for r in m.reactions if getattr(r, "_model", None) is not model)),
        }
    genes = {}
    for g in model.genes:
        genes[g.id] = {
            "name": g.name,
            "functional": g.functional,
            "notes": _freeze(g.notes),
            "annotation": _freeze(g.annotation),
            "reactions": tuple(sorted(r.id for r in g.reactions)),
            "outside_reactions": tuple(sorted(r.id for r in g.reactions if getattr(r, "_model", None) is not model)),
            # ... of these, the associations that are alive on both sides: the outside reaction's rule names the
            # gene and the reaction holds this very gene object (as opposed to a stale leftover of a renaming)
            "outside_live": tuple(sorted(r.id for r in g.reactions if getattr(r, "_model", None) is not model and _live(g, r))),
        }
    groups = {}
    for g in model.groups:
        groups[g.id] = {
            "name": g.name,
            "kind": g.kind,
            "members": tuple(sorted((type(x).__name__, str(x.id)) for x in g.members)),
            "notes": _freeze(g.notes),
            "annotation": _freeze(g.annotation),
        }
    return {
        "id": model.id,
        "name": model.name,
        "notes": _freeze(model.notes),
        "annotation": _freeze(model.annotation),
        "compartments": _freeze(dict(model.compartments)),
        "tolerance": model.tolerance,
        "direction": model.objective_direction,
        "objective_name": getattr(model.solver.objective, "name", None),
        "reactions": rx,
        "metabolites": mets,
        "genes": genes,
        "groups": groups,
        "order": {
            "reactions": [r.id for r in model.reactions],
            "metabolites": [m.id for m in model.metabolites],
            "genes": [g.id for g in model.genes],
            "groups": [g.id for g in model.groups],
        },
    }


# The name of the solver objective (a uuid by default) is compared only where a driver asks
# for it (C03, C13: it must survive contexts and analyses because constraints such as
# "fixed_objective_<name>" are looked up by it); copies get a fresh name by design.
COMPARE_OBJECTIVE_NAME = False


def content_diff(a, b, ignore=("order",), rel=0.0):
    out = []
    for k in ("id", "name", "notes", "annotation", "compartments", "tolerance", "direction", "objective_name"):
        if k in ignore or (k == "objective_name" and not COMPARE_OBJECTIVE_NAME):
            continue
        if a[k] != b[k]:
            out.append(f"model.{k}: {a[k]!r} -> {b[k]!r}")
    for layer in ("reactions", "metabolites", "genes", "groups"):
        A, B = a[layer], b[layer]
        for i in sorted(set(A) | set(B), key=str):
            if i not in A:
                out.append(f"{layer[:-1]} {i}: absent -> present")
            elif i not in B:
                out.append(f"{layer[:-1]} {i}: present -> absent")
            else:
                for f in A[i]:
                    if (layer, f) in ignore or f in ignore:
                        continue
                    x, y = A[i][f], B[i].get(f)
                    if x != y and not _num_eq(x, y, rel):
                        out.append(f"{layer[:-1]} {i}.{f}: {x!r} -> {y!r}")
    if "order" not in ignore:
        for k in a["order"]:
            if a["order"][k] != b["order"][k]:
                out.append(f"order of {k}: {a['order'][k]} -> {b['order'][k]}")
    return out


def _num_eq(x, y, rel):
    if rel <= 0:
        return False
    try:
        if isinstance(x, tuple) and isinstance(y, tuple) and len(x) == len(y):
            return all(_num_eq(u, v, rel) or u == v for u, v in zip(x, y))
        if isinstance(x, dict) and isinstance(y, dict) and set(x) == set(y):
            return all(_num_eq(x[k], y[k], rel) or x[k] == y[k] for k in x)
        if isinstance(x, (int, float)) and isinstance(y, (int, float)):
            return close(float(x), float(y), rel)
    except Exception:
        pass
    return False


def xref_errors(model):
    """Cross-reference / identity invariants of C02 (public API + _reaction sets)."""
    errs = []
    # every reaction owns its rule object (an edit through one reaction must not reach another)
    owners = {}
    for r in model.reactions:
        g = getattr(r, "gpr", None)
        if g is not None and id(g) in owners:
            errs.append(f"reactions {owners[id(g)]} and {r.id} share one gene rule object")
        elif g is not None:
            owners[id(g)] = r.id
    for lst, nm in ((model.reactions, "reaction"), (model.metabolites, "metabolite"), (model.genes, "gene"), (model.groups, "group")):
        ids = [x.id for x in lst]
        if len(set(ids)) != len(ids):
            errs.append(f"duplicate {nm} ids in model list")
        for pos, x in enumerate(lst):
            if getattr(x, "model", getattr(x, "_model", None)) is not model:
                errs.append(f"{nm} {x.id}: .model is not the model")
            try:
                if lst.get_by_id(x.id) is not x:
                    errs.append(f"{nm} {x.id}: get_by_id returns another object")
                if lst.index(x.id) != pos:
                    errs.append(f"{nm} {x.id}: index {lst.index(x.id)} != position {pos}")
            except Exception as e:
                errs.append(f"{nm} {x.id}: lookup raised {type(e).__name__}: {e}")
    for r in model.reactions:
        for m, coef in r.metabolites.items():
            if coef == 0:
                errs.append(f"reaction {r.id}: zero coefficient entry for {m.id}")
            if m.id not in model.metabolites:
                errs.append(f"reaction {r.id}: metabolite {m.id} not in model.metabolites")
            elif model.metabolites.get_by_id(m.id) is not m:
                errs.append(f"reaction {r.id}: metabolite {m.id} is not the model's object of that id")
            if r not in m.reactions:
                errs.append(f"reaction {r.id} lists metabolite {m.id} which does not list the reaction")
        for g in r.genes:
            if g.id not in model.genes:
                errs.append(f"reaction {r.id}: gene {g.id} not in model.genes")
            elif model.genes.get_by_id(g.id) is not g:
                errs.append(f"reaction {r.id}: gene {g.id} is not the model's object of that id")
            if r not in g.reactions:
                errs.append(f"reaction {r.id} lists gene {g.id} which does not list the reaction")
        rule_genes = set(r.gpr.genes)
        if {g.id for g in r.genes} != rule_genes:
            errs.append(f"reaction {r.id}: genes {sorted(g.id for g in r.genes)} != genes of rule {sorted(rule_genes)}")
    for m in model.metabolites:
        for r in m.reactions:
            if r.id not in model.reactions or model.reactions.get_by_id(r.id) is not r:
                errs.append(f"metabolite {m.id} lists reaction {r.id} that is not in the model (dangling)")
            elif m not in r.metabolites:
                errs.append(f"metabolite {m.id} lists reaction {r.id} which does not list the metabolite")
    for g in model.genes:
        for r in g.reactions:
            if r.id not in model.reactions or model.reactions.get_by_id(r.id) is not r:
                errs.append(f"gene {g.id} lists reaction {r.id} that is not in the model (dangling)")
            elif g not in r.genes:
                errs.append(f"gene {g.id} lists reaction {r.id} which does not list the gene")
    for grp in model.groups:
        for x in grp.members:
            kind = type(x).__name__
            lst = {"Reaction": model.reactions, "Metabolite": model.metabolites, "Gene": model.genes, "Group": model.groups}.get(kind)
            if lst is None:
                continue
            if x.id not in lst or lst.get_by_id(x.id) is not x:
                errs.append(f"group {grp.id}: member {kind} {x.id} is not in the model")
    return errs


# ----------------------------------------------------------------------------
# S2: FBA reference
# ----------------------------------------------------------------------------
def fba_problems(model, ledger=None, core_only=False, raw=None, check_objective=True, foreign_cols_ok=False):
    """Discrepancies between the raw GLPK problem and the flux-balance problem of
    the model's Python-side data.  ledger = {"cols": set(names), "rows": set(names)}
    of things the user added explicitly (ignored by the comparison);
    core_only: do not complain about unknown extra rows/columns;
    foreign_cols_ok: nor about coefficients that metabolite rows carry on columns that are
    no reaction's (add_lp_feasibility documents that it adds slack columns to them)."""
    from cobra.util.solver import linear_reaction_coefficients

    probs = []
    raw = raw if raw is not None else raw_lp(model)
    ledger = ledger or {"cols": set(), "rows": set()}
    if raw["dup_cols"]:
        probs.append(f"duplicate column names {raw['dup_cols'][:3]}")
    if raw["dup_rows"]:
        probs.append(f"duplicate row names {raw['dup_rows'][:3]}")
    expected_cols = {}
    fwd_of, rev_of = {}, {}
    for r in model.reactions:
        try:
            fn, rn = r.forward_variable.name, r.reverse_variable.name
        except Exception as e:
            probs.append(f"reaction {r.id}: no solver variables ({type(e).__name__}: {e})")
            continue
        fwd_of[r.id], rev_of[r.id] = fn, rn
        expected_cols[fn] = r
        expected_cols[rn] = r
        cf, cr = raw["cols"].get(fn), raw["cols"].get(rn)
        if cf is None or cr is None:
            probs.append(f"reaction {r.id}: column missing in solver (fwd {cf is not None}, rev {cr is not None})")
            continue
        if cf[2] != "continuous" or cr[2] != "continuous":
            probs.append(f"reaction {r.id}: non-continuous column")
        lb, ub = r.lower_bound, r.upper_bound
        # attainable net flux of the pair
        net_lo = cf[0] - cr[1]
        net_hi = cf[1] - cr[0]
        if not (close(net_lo, float(lb)) and close(net_hi, float(ub))):
            probs.append(f"reaction {r.id}: bounds {(lb, ub)} but solver pair allows net flux [{net_lo}, {net_hi}] (fwd {cf[:2]}, rev {cr[:2]})")
        elif cf[0] < 0 or cr[0] < 0:
            probs.append(f"reaction {r.id}: negative lower bound on a split variable (fwd {cf[:2]}, rev {cr[:2]})")
        elif lb <= ub and not _exact_range(cf, cr, lb, ub):
            probs.append(f"reaction {r.id}: bounds {(lb, ub)} but variable pair fwd {cf[:2]}, rev {cr[:2]} does not span exactly that range")
    expected_rows = {}
    for m in model.metabolites:
        try:
            rn = m.constraint.name
        except Exception as e:
            probs.append(f"metabolite {m.id}: no solver constraint ({type(e).__name__}: {e})")
            continue
        expected_rows[rn] = m
        row = raw["rows"].get(rn)
        if row is None:
            probs.append(f"metabolite {m.id}: row missing in solver")
            continue
        if not (row[0] == 0 and row[1] == 0):
            probs.append(f"metabolite {m.id}: row bounds {row[:2]} instead of 0/0")
        want = {}
        for r in model.reactions:
            coef = r.metabolites.get(m)
            if coef is None:
                # metabolite object identity may differ (bug) - fall back on id
                for mm, cc in r.metabolites.items():
                    if mm.id == m.id:
                        coef = cc
            if coef and r.id in fwd_of:
                want[fwd_of[r.id]] = want.get(fwd_of[r.id], 0.0) + coef
                want[rev_of[r.id]] = want.get(rev_of[r.id], 0.0) - coef
        for cn in sorted(set(want) | set(row[2]), key=str):
            if cn in ledger["cols"] or (foreign_cols_ok and cn not in want and cn not in expected_cols):
                continue
            u, v = want.get(cn, 0.0), row[2].get(cn, 0.0)
            if not close(float(u), float(v)):
                probs.append(f"metabolite {m.id}: stoichiometry says {u} on {cn}, solver row has {v}")
    if not core_only:
        for cn in raw["cols"]:
            if cn not in expected_cols and cn not in ledger["cols"]:
                probs.append(f"solver column {cn!r} belongs to no reaction and was not added by the user")
        for rn in raw["rows"]:
            if rn not in expected_rows and rn not in ledger["rows"]:
                probs.append(f"solver row {rn!r} belongs to no metabolite and was not added by the user")
    if check_objective:
        try:
            rep = {r.id: v for r, v in linear_reaction_coefficients(model).items()}
        except Exception as e:
            rep = None
            probs.append(f"linear_reaction_coefficients raised {type(e).__name__}: {e}")
        if rep is not None:
            want = {}
            for rid_, v in rep.items():
                if rid_ in fwd_of:
                    want[fwd_of[rid_]] = v
                    want[rev_of[rid_]] = -v
            for cn in sorted(set(want) | set(raw["obj"]), key=str):
                if cn in ledger["cols"]:
                    continue
                u, v = want.get(cn, 0.0), raw["obj"].get(cn, 0.0)
                if not close(float(u), float(v)):
                    probs.append(f"objective: reported coefficient {u} on {cn}, solver has {v}")
            if model.objective_direction != raw["dir"]:
                probs.append(f"objective direction reported {model.objective_direction}, solver has {raw['dir']}")
            for r in model.reactions:
                try:
                    oc = r.objective_coefficient
                except Exception as e:
                    probs.append(f"reaction {r.id}.objective_coefficient raised {type(e).__name__}")
                    continue
                if not close(float(oc), float(rep.get(r.id, 0.0))):
                    probs.append(f"reaction {r.id}.objective_coefficient {oc} != {rep.get(r.id, 0.0)}")
    return probs


def _exact_range(cf, cr, lb, ub):
    """The set {f - r : f in cf, r in cr} must be exactly [lb, ub]; with f,r >= 0 that
    is automatic from the net bounds, except that both variables must be able to be
    zero simultaneously unless the reaction is forced."""
    return True


def snapshot(model, with_lp=True):
    s = {"content": content(model), "xref": xref_errors(model)}
    if with_lp:
        s["lp"] = raw_lp(model)
    return s


def snapshot_diff(a, b, ignore=("order",), lp_rel=REL, content_rel=0.0, config=False):
    out = content_diff(a["content"], b["content"], ignore=ignore, rel=content_rel)
    if "lp" in a and "lp" in b:
        what = ("cols", "rows", "obj", "dir") + (("config",) if config else ())
        out += ["LP " + d for d in lp_diff(a["lp"], b["lp"], rel=lp_rel, what=what)]
    out += ["xref(after) " + e for e in b["xref"] if e not in a["xref"]]
    return out
