"""Equivalence of two models as the I/O properties (C10, C11) define it."""
import math

from cv import observe


def norm_annotation(a):
    """provider -> sorted tuple of identifiers (a single string and a one-element list are
    the same thing)."""
    out = {}
    for k, v in dict(a).items():
        if isinstance(v, (list, tuple, set)):
            vals = []
            for x in v:
                if isinstance(x, (list, tuple)):
                    vals.append(tuple(str(y) for y in x))
                else:
                    vals.append(str(x))
            out[str(k)] = tuple(sorted(vals, key=str))
        else:
            out[str(k)] = (str(v),)
    return out


def describe(model, groups=True):
    from cobra.util.solver import linear_reaction_coefficients

    try:
        objc = {r.id: v for r, v in linear_reaction_coefficients(model).items()}
    except Exception as e:
        objc = {"<error>": repr(e)}
    d = {
        "id": model.id,
        "name": model.name or "",
        "compartments": {k: v for k, v in dict(model.compartments).items()},
        "notes": dict(model.notes),
        "annotation": norm_annotation(model.annotation),
        "direction": model.objective_direction,
        "reactions": {},
        "metabolites": {},
        "genes": {},
        "groups": {},
    }
    for r in model.reactions:
        d["reactions"][r.id] = {
            "name": r.name or "",
            "subsystem": r.subsystem or "",
            "lower_bound": float(r.lower_bound),
            "upper_bound": float(r.upper_bound),
            "stoich": {m.id: float(v) for m, v in r.metabolites.items()},
            "rule": observe._rule_key(r),
            "obj": float(objc.get(r.id, 0.0)),
            "notes": dict(r.notes),
            "annotation": norm_annotation(r.annotation),
        }
    for m in model.metabolites:
        d["metabolites"][m.id] = {
            "name": m.name or "",
            "formula": m.formula or "",
            "charge": m.charge,
            "compartment": m.compartment or "",
            "notes": dict(m.notes),
            "annotation": norm_annotation(m.annotation),
        }
    for g in model.genes:
        d["genes"][g.id] = {"name": g.name or "", "notes": dict(g.notes), "annotation": norm_annotation(g.annotation)}
    if groups:
        for g in model.groups:
            d["groups"][g.id] = {"name": g.name or "", "kind": g.kind, "members": tuple(sorted((type(x).__name__, str(x.id)) for x in g.members))}
    return d


def feq(a, b, digits):
    if a == b:
        return True
    if isinstance(a, float) and isinstance(b, float):
        if math.isinf(a) or math.isinf(b) or math.isnan(a) or math.isnan(b):
            return a == b
        if digits is None:
            return False
        return abs(a - b) <= 10.0 ** (-digits + 1) * max(abs(a), abs(b))
    return False


def diff(a, b, digits=None, groups=True, ignore=()):
    """Readable differences; floats exact unless `digits` significant digits are allowed."""
    out = []
    for k in ("id", "name", "compartments", "notes", "annotation", "direction"):
        if k in ignore:
            continue
        if k == "direction" and not any(r["obj"] for r in a["reactions"].values()) and not any(r["obj"] for r in b["reactions"].values()):
            continue  # the direction of an empty objective is not observable in the FBA problem
        if a[k] != b[k]:
            out.append(f"model.{k}: {a[k]!r} -> {b[k]!r}")
    layers = ["reactions", "metabolites", "genes"] + (["groups"] if groups else [])
    for layer in layers:
        A, B = a[layer], b[layer]
        for i in sorted(set(A) | set(B), key=str):
            if i not in A:
                out.append(f"{layer[:-1]} {i!r}: absent -> present")
            elif i not in B:
                out.append(f"{layer[:-1]} {i!r}: present -> absent")
            else:
                for f in A[i]:
                    if f"{layer}.{f}" in ignore:
                        continue
                    x, y = A[i][f], B[i][f]
                    if x == y:
                        continue
                    if f == "stoich":
                        if set(x) == set(y) and all(feq(x[m], y[m], digits) for m in x):
                            continue
                    elif isinstance(x, float) and isinstance(y, float) and feq(x, y, digits):
                        continue
                    out.append(f"{layer[:-1]} {i!r}.{f}: {x!r} -> {y!r}")
    return out


def field_of(d):
    """class of a difference line, for mechanism keys (identifiers never enter a key)"""
    import re

    if d.startswith("model."):
        return d.split(":")[0]
    kind = d.split(" ", 1)[0]
    if d.endswith("absent -> present") or d.endswith("present -> absent"):
        return f"{kind}.presence"
    m = re.search(r"['\"]\.([a-z_]+): ", d)
    return f"{kind}.{m.group(1) if m else '?'}"
