"""S5 - executable reference of the documented edit semantics (C02).

The state is plain data.  `apply(state, opname, desc)` returns what the documentation of
the operation promises: the new abstract state, the set of objects the operation may
touch (its *frame*) and whether the operation is documented to fail.  Where the
documentation is silent the affected part is returned as *unspecified* and is re-read
from the real model instead of being compared (the monitor never demands more than
the documentation plus the property statement).

Each transition quotes the docstring sentence it implements.
"""
import copy
import re

INF = float("inf")
DEFAULT_LB, DEFAULT_UB = -1000.0, 1000.0


class Unspecified(Exception):
    """The documentation does not determine the outcome for these arguments."""


# ---------------------------------------------------------------------------
# gene rules: own tiny parser (independent of cobra's)
# ---------------------------------------------------------------------------
_tok = re.compile(r"\s*(\(|\)|&|\||[^\s()&|]+)")


def parse_rule(text):
    """-> tree: None | gene | (op, [children])"""
    text = (text or "").strip()
    if not text:
        return None
    toks = _tok.findall(text)
    pos = [0]

    def peek():
        return toks[pos[0]] if pos[0] < len(toks) else None

    def take():
        t = toks[pos[0]]
        pos[0] += 1
        return t

    def is_or(t):
        return t in ("or", "OR", "|")

    def is_and(t):
        return t in ("and", "AND", "&")

    def atom():
        t = take()
        if t == "(":
            e = expr_or()
            if peek() == ")":
                take()
            return e
        return t

    def expr_and():
        kids = [atom()]
        while peek() is not None and is_and(peek()):
            take()
            kids.append(atom())
        return kids[0] if len(kids) == 1 else ("and", kids)

    def expr_or():
        kids = [expr_and()]
        while peek() is not None and is_or(peek()):
            take()
            kids.append(expr_and())
        return kids[0] if len(kids) == 1 else ("or", kids)

    return expr_or()


def rule_eval(tree, absent):
    if tree is None:
        return True
    if isinstance(tree, str):
        return tree not in absent
    op, kids = tree
    return all(rule_eval(k, absent) for k in kids) if op == "and" else any(rule_eval(k, absent) for k in kids)


def rule_genes(tree):
    if tree is None:
        return set()
    if isinstance(tree, str):
        return {tree}
    out = set()
    for k in tree[1]:
        out |= rule_genes(k)
    return out


def rule_rename(tree, mapping):
    if tree is None:
        return None
    if isinstance(tree, str):
        return mapping.get(tree, tree)
    return (tree[0], [rule_rename(k, mapping) for k in tree[1]])


def rule_table(tree):
    genes = sorted(rule_genes(tree))
    if len(genes) > 8:
        return (tuple(genes), None)
    return (tuple(genes), tuple(rule_eval(tree, {g for i, g in enumerate(genes) if mask >> i & 1}) for mask in range(1 << len(genes))))


def rule_without(tree, removed):
    """Old rule with the genes absent: substitute False and simplify."""
    if tree is None:
        return None, True
    if isinstance(tree, str):
        return (None, False) if tree in removed else (tree, True)
    op, kids = tree
    new = []
    for k in kids:
        t, alive = rule_without(k, removed)
        if op == "and" and not alive:
            return None, False
        if alive and t is not None:
            new.append(t)
        elif alive and t is None:
            # an always-true operand (cannot happen: rules have no constants)
            pass
    if op == "or" and not new:
        return None, False
    if len(new) == 1:
        return new[0], True
    return (op, new), True


# ---------------------------------------------------------------------------
# abstraction of a real model
# ---------------------------------------------------------------------------
def abstract(model):
    from cobra.util.solver import linear_reaction_coefficients

    st = {"reactions": {}, "metabolites": {}, "genes": {}, "groups": {}, "direction": model.objective_direction}
    for r in model.reactions:
        st["reactions"][r.id] = {
            "stoich": {m.id: float(v) for m, v in r.metabolites.items()},
            "bounds": (float(r.lower_bound), float(r.upper_bound)),
            "rule": parse_rule(r.gene_reaction_rule),
        }
    for m in model.metabolites:
        st["metabolites"][m.id] = {"compartment": m.compartment}
    for g in model.genes:
        st["genes"][g.id] = {"functional": bool(g.functional)}
    for g in model.groups:
        st["groups"][g.id] = {"members": {(type(x).__name__, str(x.id)) for x in g.members}}
    try:
        st["objective"] = {r.id: float(v) for r, v in linear_reaction_coefficients(model).items()}
    except Exception:
        st["objective"] = None
    return st


def compare(ref, act):
    """Differences between the reference state and the abstraction of the real model."""
    out = []
    for layer in ("reactions", "metabolites", "genes", "groups"):
        A, B = ref[layer], act[layer]
        for i in sorted(set(A) | set(B), key=str):
            if i not in B:
                out.append(f"{layer[:-1]} {i}: documented to be in the model, it is not")
            elif i not in A:
                out.append(f"{layer[:-1]} {i}: in the model, documented not to be")
    for rid, r in ref["reactions"].items():
        a = act["reactions"].get(rid)
        if a is None:
            continue
        if {k: v for k, v in r["stoich"].items()} != a["stoich"] and not _stoich_close(r["stoich"], a["stoich"]):
            out.append(f"reaction {rid}: stoichiometry {a['stoich']}, documented {r['stoich']}")
        if tuple(r["bounds"]) != tuple(a["bounds"]):
            out.append(f"reaction {rid}: bounds {a['bounds']}, documented {r['bounds']}")
        if r["rule"] != "unspecified" and rule_table(r["rule"]) != rule_table(a["rule"]):
            out.append(f"reaction {rid}: gene rule {a['rule']!r}, documented (up to equivalence) {r['rule']!r}")
    for gid, g in ref["genes"].items():
        a = act["genes"].get(gid)
        if a is not None and g["functional"] != a["functional"]:
            out.append(f"gene {gid}: functional {a['functional']}, documented {g['functional']}")
    for gid, g in ref["groups"].items():
        a = act["groups"].get(gid)
        if a is not None and g["members"] != "unspecified" and g["members"] != a["members"]:
            out.append(f"group {gid}: members {sorted(a['members'])}, documented {sorted(g['members'])}")
    if ref.get("objective") is not None and act.get("objective") is not None:
        ro = {k: v for k, v in ref["objective"].items() if v != 0}
        ao = {k: v for k, v in act["objective"].items() if v != 0}
        if ro != ao:
            out.append(f"objective coefficients {ao}, documented {ro}")
    if ref.get("direction") is not None and ref["direction"] != act["direction"]:
        out.append(f"objective direction {act['direction']}, documented {ref['direction']}")
    return out


def _stoich_close(a, b):
    if set(a) != set(b):
        return False
    return all(abs(a[k] - b[k]) <= 1e-12 * max(1.0, abs(a[k])) for k in a)


# ---------------------------------------------------------------------------
# transitions
# ---------------------------------------------------------------------------
class Result:
    def __init__(self, state, touched=None, raises=False, unspecified=()):
        self.state = state
        self.touched = touched or {"reactions": set(), "metabolites": set(), "genes": set(), "groups": set(), "model": set()}
        self.raises = raises
        self.unspecified = set(unspecified)


def _t(**kw):
    t = {"reactions": set(), "metabolites": set(), "genes": set(), "groups": set(), "model": set()}
    for k, v in kw.items():
        t[k] = set(v)
    return t


def _ensure_genes(s, tree, touched):
    for g in rule_genes(tree):
        if g not in s["genes"]:
            # "If the reaction has a model, and new genes appear in the GPR, they will be
            #  created as Gene() entities and added to the model."
            s["genes"][g] = {"functional": True}
            touched["genes"].add(g)


def _drop_reaction(s, rid, touched, remove_orphans=False):
    r = s["reactions"].pop(rid)
    touched["reactions"].add(rid)
    for g in s["groups"].values():
        g["members"].discard(("Reaction", rid))
    for gid in s["groups"]:
        touched["groups"].add(gid)
    if s.get("objective") is not None:
        s["objective"].pop(rid, None)
    if remove_orphans:
        # "Remove orphaned genes and metabolites from the model as well"
        for mid in r["stoich"]:
            if mid in s["metabolites"] and not any(mid in x["stoich"] for x in s["reactions"].values()):
                s["metabolites"].pop(mid)
                touched["metabolites"].add(mid)
                for g in s["groups"].values():
                    g["members"].discard(("Metabolite", mid))
        for gid in rule_genes(r["rule"]) if r["rule"] != "unspecified" else ():
            if gid in s["genes"] and not any(x["rule"] != "unspecified" and gid in rule_genes(x["rule"]) for x in s["reactions"].values()):
                s["genes"].pop(gid)
                touched["genes"].add(gid)
                # (a gene that left the model cannot stay a group member: cross references)
                for g in s["groups"].values():
                    g["members"].discard(("Gene", gid))
    return r


def _knock_out_gene(s, gid, touched):
    s["genes"][gid]["functional"] = False
    touched["genes"].add(gid)
    absent = {g for g, v in s["genes"].items() if not v["functional"]}
    for rid, r in s["reactions"].items():
        if r["rule"] not in (None, "unspecified") and gid in rule_genes(r["rule"]) and not rule_eval(r["rule"], absent):
            # "marking it as non-functional and setting all associated reactions bounds to zero"
            r["bounds"] = (0.0, 0.0)
            touched["reactions"].add(rid)


def parse_reaction_string(text):
    """Documented format of build_reaction_from_string (default arrows)."""
    m = re.search(r"<(-+|=+)>", text)
    if m:
        bounds = (DEFAULT_LB, DEFAULT_UB)
    else:
        m = re.search(r"(-+|=+)>", text)
        if m:
            bounds = (0.0, DEFAULT_UB)
        else:
            m = re.search(r"<(-+|=+)", text)
            if not m:
                return None
            bounds = (DEFAULT_LB, 0.0)
    left, right = text[: m.start()].strip(), text[m.end() :].strip()
    st = {}
    for side, factor in ((left, -1.0), (right, 1.0)):
        if not side:
            continue
        for term in side.split("+"):
            term = term.strip()
            if not term or term.lower() == "nothing":
                continue
            if " " in term:
                num, mid = term.split()
                coef = float(num.strip("()")) * factor
            else:
                mid, coef = term, factor
            st[mid] = st.get(mid, 0.0) + coef
    return bounds, {k: v for k, v in st.items() if v != 0}


def apply(state, name, desc, other=None):
    """-> Result.  `state` is not modified."""
    s = copy.deepcopy(state)
    d = desc or {}
    T = _t()

    if name in ("model.optimize", "model.solver=", "model.repair", "detached.copy", "model.add_cons_vars", "model.remove_cons_vars", "util.fix_objective_as_constraint", "util.add_absolute_expression", "flux_analysis.add_loopless"):
        return Result(s, T)
    if name == "model.tolerance=":
        return Result(s, _t(model={"tolerance"}))
    if name in ("flux_analysis.add_pfba", "flux_analysis.add_moma", "flux_analysis.add_room"):
        # documented to replace the objective by their own (not a flux objective)
        s["objective"] = None
        s["direction"] = None
        return Result(s, _t(model={"objective", "direction"}))

    # ---- building -----------------------------------------------------------
    if name == "model.add_metabolites":
        # "Will add a list of metabolites to the model object" - ids already present are skipped
        for mid in d["ids"]:
            if mid not in s["metabolites"]:
                s["metabolites"][mid] = {"compartment": None}
                T["metabolites"].add(mid)
        return Result(s, T, unspecified={"new-metabolite-attributes"})
    if name == "model.add_reactions":
        # "Reactions with identifiers identical to a reaction already in the model are ignored."
        seen = set()
        for r in d["reactions"]:
            if r["id"] in s["reactions"] or r["id"] in seen:
                continue
            seen.add(r["id"])
            tree = parse_rule(r["rule"])
            s["reactions"][r["id"]] = {"stoich": {k: float(v) for k, v in r["stoich"].items()}, "bounds": tuple(float(_b(x)) for x in r["bounds"]), "rule": tree}
            T["reactions"].add(r["id"])
            for mid in r["stoich"]:
                if mid not in s["metabolites"]:
                    s["metabolites"][mid] = {"compartment": None}
                    T["metabolites"].add(mid)
            _ensure_genes(s, tree, T)
        return Result(s, T, unspecified={"new-metabolite-attributes"})
    if name == "model.add_boundary":
        kw = d["kw"]
        typ = kw.get("type", "exchange")
        rid = d["created"]
        lb = kw.get("lb", DEFAULT_LB)
        ub = kw.get("ub", DEFAULT_UB)
        # "exchange ... sink: (lb, ub) ; demand: (0, ub)"; custom types use the given bounds
        bounds = (0.0, float(ub)) if typ == "demand" else (float(lb), float(ub))
        s["reactions"][rid] = {"stoich": {d["met"]: -1.0}, "bounds": bounds, "rule": None}
        T["reactions"].add(rid)
        return Result(s, T)
    if name.endswith(".failing"):
        return Result(s, T, raises=True)
    if name == "model.add_groups":
        if d["id"] not in s["groups"]:
            s["groups"][d["id"]] = {"members": {(k, i) for k, i in d["members"]}}
            T["groups"].add(d["id"])
        return Result(s, T)
    if name == "model.remove_groups":
        s["groups"].pop(d["id"], None)
        T["groups"].add(d["id"])
        return Result(s, T)

    # ---- removing -----------------------------------------------------------
    if name in ("model.remove_reactions", "reaction.remove_from_model"):
        ids = d["ids"] if "ids" in d else [d["id"]]
        for rid in ids:
            if rid in s["reactions"]:
                _drop_reaction(s, rid, T, d.get("remove_orphans", False))
        return Result(s, T)
    if name in ("model.remove_metabolites", "metabolite.remove_from_model"):
        ids = d["ids"] if "ids" in d else [d["id"]]
        for mid in ids:
            if mid not in s["metabolites"]:
                continue
            s["metabolites"].pop(mid)
            T["metabolites"].add(mid)
            for gid, g in s["groups"].items():
                if ("Metabolite", mid) in g["members"]:
                    g["members"].discard(("Metabolite", mid))
                    T["groups"].add(gid)
            users = [rid for rid, r in s["reactions"].items() if mid in r["stoich"]]
            if d.get("destructive"):
                # "If True then all associated reactions are removed from the Model."
                for rid in users:
                    _drop_reaction(s, rid, T, False)
            else:
                # "If False then the metabolite is removed from all associated reactions."
                for rid in users:
                    s["reactions"][rid]["stoich"].pop(mid)
                    T["reactions"].add(rid)
        return Result(s, T)
    if name == "manipulation.remove_genes":
        removed = set(d["ids"])
        for g in removed:
            s["genes"].pop(g, None)
            T["genes"].add(g)
            for gid, grp in s["groups"].items():
                if ("Gene", g) in grp["members"]:
                    grp["members"].discard(("Gene", g))
                    T["groups"].add(gid)
        for rid in list(s["reactions"]):
            r = s["reactions"][rid]
            if r["rule"] in (None, "unspecified") or not (rule_genes(r["rule"]) & removed):
                continue
            new, alive = rule_without(r["rule"], removed)
            T["reactions"].add(rid)
            if d["remove_reactions"] and not alive:
                # "Whether to remove reactions associated with genes in gene_list"
                _drop_reaction(s, rid, T, False)
            elif alive:
                r["rule"] = new
            else:
                r["rule"] = "unspecified"  # rule of a reaction that cannot be catalysed any more
        return Result(s, T)

    # ---- renaming -----------------------------------------------------------
    if name == "reaction.id=":
        old, new = d["old"], d["new"]
        if new == old:
            return Result(s, T)
        if new in s["reactions"]:
            return Result(s, T, raises=True)
        s["reactions"][new] = s["reactions"].pop(old)
        for gid, g in s["groups"].items():
            if ("Reaction", old) in g["members"]:
                g["members"].discard(("Reaction", old))
                g["members"].add(("Reaction", new))
                T["groups"].add(gid)
        if s.get("objective") is not None and old in s["objective"]:
            s["objective"][new] = s["objective"].pop(old)
        T["reactions"] |= {old, new}
        return Result(s, T)
    if name == "metabolite.id=":
        old, new = d["old"], d["new"]
        if new == old:
            return Result(s, T)
        if new in s["metabolites"]:
            return Result(s, T, raises=True)
        s["metabolites"][new] = s["metabolites"].pop(old)
        for rid, r in s["reactions"].items():
            if old in r["stoich"]:
                r["stoich"][new] = r["stoich"].pop(old)
                T["reactions"].add(rid)
        for gid, g in s["groups"].items():
            if ("Metabolite", old) in g["members"]:
                g["members"].discard(("Metabolite", old))
                g["members"].add(("Metabolite", new))
                T["groups"].add(gid)
        T["metabolites"] |= {old, new}
        return Result(s, T)
    if name.startswith("detached."):
        # edits of a reaction that is not part of the model: the model is not concerned
        return Result(s, T)
    if name == "manipulation.rename_genes":
        mp = {k: v for k, v in d["map"].items() if k in s["genes"]}
        for old, new in mp.items():
            T["genes"] |= {old, new}
            if new in s["genes"]:
                s["genes"].pop(old)  # merged into the existing gene
            else:
                s["genes"][new] = s["genes"].pop(old)
            for gid, g in s["groups"].items():
                if g["members"] != "unspecified" and ("Gene", old) in g["members"]:
                    T["groups"].add(gid)
                    g["members"] = "unspecified"  # documentation silent on groups here
        for rid, r in s["reactions"].items():
            if r["rule"] not in (None, "unspecified") and rule_genes(r["rule"]) & set(mp):
                r["rule"] = rule_rename(r["rule"], mp)
                T["reactions"].add(rid)
        return Result(s, T, unspecified={"group-membership-of-renamed-genes", "functional-of-merged-genes"})

    # ---- stoichiometry ------------------------------------------------------
    if name in ("reaction.add_metabolites", "reaction.subtract_metabolites"):
        r = s["reactions"][d["id"]]
        T["reactions"].add(d["id"])
        for mid, spec in d["mets"].items():
            v = spec[0] if isinstance(spec, list) else -spec
            if name == "reaction.subtract_metabolites":
                v = -float(spec)
            if mid in r["stoich"]:
                # "True causes the coefficients to be added. False causes the coefficient to be replaced."
                r["stoich"][mid] = r["stoich"][mid] + v if d.get("combine", True) else v
            else:
                r["stoich"][mid] = v
                if mid not in s["metabolites"]:
                    s["metabolites"][mid] = {"compartment": None}
                    T["metabolites"].add(mid)
        # "If the final coefficient for a metabolite is 0 then it is removed from the reaction."
        r["stoich"] = {k: v for k, v in r["stoich"].items() if v != 0}
        return Result(s, T, unspecified={"new-metabolite-attributes"})
    if name in ("reaction+=", "reaction-="):
        r = s["reactions"][d["id"]]
        T["reactions"].add(d["id"])
        sign = 1.0 if name == "reaction+=" else -1.0
        other_st = dict(d["other_stoich"])
        for mid, v in other_st.items():
            r["stoich"][mid] = r["stoich"].get(mid, 0.0) + sign * v
            if mid not in s["metabolites"]:
                s["metabolites"][mid] = {"compartment": None}
                T["metabolites"].add(mid)
        r["stoich"] = {k: v for k, v in r["stoich"].items() if v != 0}
        if name == "reaction+=":
            # "the gene reaction rule will be both rules combined by an and"
            o = parse_rule(d.get("other_rule", ""))
            if r["rule"] not in (None, "unspecified") and o is not None:
                r["rule"] = ("and", [r["rule"], o])
            elif r["rule"] is None and o is not None:
                r["rule"] = o
            _ensure_genes(s, r["rule"] if r["rule"] != "unspecified" else None, T)
        return Result(s, T, unspecified={"new-metabolite-attributes"})
    if name == "reaction*=":
        r = s["reactions"][d["id"]]
        T["reactions"].add(d["id"])
        c = float(d["factor"])
        r["stoich"] = {k: v * c for k, v in r["stoich"].items()}
        if c < 0:
            # "If coefficient is less than zero, the reaction is reversed and the bounds are swapped."
            lb, ub = r["bounds"]
            r["bounds"] = (-ub, -lb)
        return Result(s, T)
    if name == "reaction.reaction=":
        parsed = parse_reaction_string(d["string"])
        if parsed is None:
            return Result(s, T, raises=True)
        bounds, st = parsed
        r = s["reactions"][d["id"]]
        T["reactions"].add(d["id"])
        r["bounds"], r["stoich"] = bounds, st
        for mid in st:
            if mid not in s["metabolites"]:
                s["metabolites"][mid] = {"compartment": None}
                T["metabolites"].add(mid)
        # "unknown ids create metabolites": every term is looked up, so an unknown id whose
        # terms cancel is created all the same (it joins the model, not the reaction)
        for mid in re.findall(r"[^\s+()<>=-][^\s+]*", re.sub(r"<?[-=]+>?", " ", d["string"])):
            if not re.fullmatch(r"[0-9.eE+-]+|\([0-9.eE+-]+\)", mid) and mid not in s["metabolites"] and mid.lower() != "nothing":
                s["metabolites"][mid] = {"compartment": None}
                T["metabolites"].add(mid)
        return Result(s, T, unspecified={"new-metabolite-attributes"})

    # ---- bounds -------------------------------------------------------------
    if name == "reaction.bounds=":
        lb, ub = (float(_b(x)) for x in d["bounds"])
        if lb > ub:
            return Result(s, T, raises=True)
        s["reactions"][d["id"]]["bounds"] = (lb, ub)
        return Result(s, _t(reactions={d["id"]}))
    if name in ("reaction.lower_bound=", "reaction.upper_bound="):
        r = s["reactions"][d["id"]]
        v = float(_b(d["value"]))
        lb, ub = r["bounds"]
        lb, ub = (v, ub) if name == "reaction.lower_bound=" else (lb, v)
        if lb > ub:
            # "ValueError: If lower bound higher than the current upper bound"
            return Result(s, T, raises=True)
        r["bounds"] = (lb, ub)
        return Result(s, _t(reactions={d["id"]}))
    if name == "reaction.knock_out":
        s["reactions"][d["id"]]["bounds"] = (0.0, 0.0)
        return Result(s, _t(reactions={d["id"]}))
    if name == "model.medium=":
        med = d["medium"]
        # which reactions count as exchanges is the heuristic's business (C18): taken from
        # what the model reported before the call
        ext = [rid for rid in d.get("exchanges", []) if rid in s["reactions"]]

        def set_active_bound(r, bound):
            # "The bound is reversed and set as lower bound if reaction has reactants
            #  (metabolites that are consumed)"; otherwise, with products, the upper bound
            lb, ub = r["bounds"]
            if any(v < 0 for v in r["stoich"].values()):
                r["bounds"] = (-bound, ub)
            elif r["stoich"]:
                r["bounds"] = (lb, bound)

        for rid in list(med) + [x for x in ext if x not in med]:
            if rid not in s["reactions"]:
                continue
            r = s["reactions"][rid]
            lb, ub = r["bounds"]
            if rid in med:
                set_active_bound(r, float(med[rid]))
            else:
                # "Turn off reactions not present in media"
                has_reactants = any(v < 0 for v in r["stoich"].values())
                has_products = any(v >= 0 for v in r["stoich"].values())
                is_export = has_reactants and not has_products
                set_active_bound(r, min(0.0, -lb if is_export else ub))
            if r["bounds"][0] > r["bounds"][1]:
                return Result(state, T, raises=True)
            T["reactions"].add(rid)
        return Result(s, T, unspecified={"exchange-heuristic"})

    # ---- gene rules / knock-outs --------------------------------------------
    if name in ("reaction.gene_reaction_rule=", "reaction.gpr="):
        tree = parse_rule(d["rule"])
        s["reactions"][d["id"]]["rule"] = tree
        T["reactions"].add(d["id"])
        _ensure_genes(s, tree, T)
        return Result(s, T)
    if name == "gene.knock_out":
        _knock_out_gene(s, d["id"], T)
        return Result(s, T)
    if name == "manipulation.knock_out_model_genes":
        for g in d["ids"]:
            _knock_out_gene(s, g, T)
        return Result(s, T)
    if name == "gene.functional=":
        s["genes"][d["id"]]["functional"] = bool(d["value"])
        return Result(s, _t(genes={d["id"]}))

    # ---- objective ----------------------------------------------------------
    if name == "model.objective=":
        co = {k: float(v) for k, v in d["coefs"].items() if k != "direction"}
        s["objective"] = {k: v for k, v in co.items() if v != 0}
        if "direction" in d["coefs"]:
            s["direction"] = d["coefs"]["direction"]
        elif d["form"] == "sympy" and s.get("direction") is None:
            pass
        if s.get("direction") is None:
            s["direction"] = "unspecified-until-read"
        return Result(s, _t(model={"objective", "direction"}))
    if name == "reaction.objective_coefficient=":
        if s.get("objective") is None:
            raise Unspecified("additive update of a non-flux objective")
        v = float(d["value"])
        if v == 0:
            s["objective"].pop(d["id"], None)
        else:
            s["objective"][d["id"]] = v
        return Result(s, _t(model={"objective"}))
    if name == "model.objective_direction=":
        v = d["value"].lower()
        s["direction"] = "max" if v.startswith("max") else "min"
        return Result(s, _t(model={"direction"}))

    raise Unspecified(name)


def _b(x):
    if x == "inf":
        return INF
    if x == "-inf":
        return -INF
    return x
