"""History engine: runs seeded sequences of catalogue operations on a model and calls
a monitor after every step (also after steps that raised)."""
import os
import traceback

from cv import gen, ops
from cv.ops import Hist, Skip, OPS

DATA = "/repo/src/cobra/data"
_cache = {}


def bundled(name):
    """Bundled models by explicit path (load_model would try the network for some)."""
    import cobra.io as cio

    if name not in _cache:
        base = os.environ.get("CV_COBRA_SRC")
        data = os.path.join(base, "cobra", "data") if base else DATA
        if name == "textbook":
            _cache[name] = cio.read_sbml_model(os.path.join(data, "textbook.xml.gz"))
        elif name == "mini":
            _cache[name] = cio.load_json_model(os.path.join(data, "mini.json"))
        elif name == "salmonella":
            _cache[name] = cio.read_sbml_model(os.path.join(data, "salmonella.xml.gz"))
        else:
            raise KeyError(name)
    return _cache[name].copy()


def start_model(rng, kind):
    import cobra

    if kind == "empty":
        return cobra.Model("empty"), None
    if kind in ("textbook", "mini"):
        return bundled(kind), kind
    rec = gen.network(rng, genes=rng.randint(1, 5))
    return gen.build(rec), rec


def describe_exc(e):
    return f"{type(e).__name__}: {str(e)[:200]}"


def run_history(H, n_steps, allowed, monitor, ctx_prob=0.0, max_depth=3, journal=None, in_context=None):
    """Run up to n_steps operations.  monitor(H, k, name, desc, exc) -> bool keep_going.
    Context enter/exit steps are interleaved with probability ctx_prob."""
    trace = []
    k = 0
    tries = 0
    while k < n_steps and tries < n_steps * 6:
        tries += 1
        r = H.rng.random()
        if ctx_prob and r < ctx_prob and len(H.entered) < max_depth:
            name = "ctx.enter"
        elif ctx_prob and r < 2 * ctx_prob and H.entered:
            name = "ctx.exit"
        else:
            name = ops.pick(H, allowed if not H.entered or in_context is None else in_context)
        desc, exc = None, None
        if journal is not None:
            journal({"about_to_run": name, "trace": trace[-12:]})
        try:
            if name == "ctx.enter":
                H.model.__enter__()
                H.entered.append(H.model)
                H.ledgers.append({"cols": set(H.ledger["cols"]), "rows": set(H.ledger["rows"])})
                H.custom_obj.append(H.custom_obj[-1])
                desc = {"depth": len(H.entered)}
            elif name == "ctx.exit":
                H.entered.pop()
                inner = H.ledgers.pop()
                if H.keep_ledger_on_exit:
                    # C01 only asks that nothing is present the user did not add: what was
                    # added explicitly inside the block stays *allowed* (whether it is
                    # really gone again is C03's question)
                    H.ledger["cols"] |= inner["cols"]
                    H.ledger["rows"] |= inner["rows"]
                H.custom_obj.pop()
                desc = {"depth": len(H.entered)}
                H.model.__exit__(None, None, None)
            else:
                desc = OPS[name]["fn"](H)
        except Skip:
            continue
        except Exception as e:  # an operation that raises is part of the workload
            exc = e
        k += 1
        trace.append({"op": name, "args": desc, "raised": describe_exc(exc) if exc else None})
        if not monitor(H, k, name, desc, exc, trace):
            break
    return trace


def close_contexts(H, monitor=None, trace=None):
    while H.entered:
        H.entered.pop()
        inner = H.ledgers.pop()
        if H.keep_ledger_on_exit:
            H.ledger["cols"] |= inner["cols"]
            H.ledger["rows"] |= inner["rows"]
        H.custom_obj.pop()
        try:
            H.model.__exit__(None, None, None)
            exc = None
        except Exception as e:
            exc = e
        if trace is not None:
            trace.append({"op": "ctx.exit", "args": {"depth": len(H.entered)}, "raised": describe_exc(exc) if exc else None})
        if monitor is not None:
            monitor(H, -1, "ctx.exit", {}, exc, trace)
