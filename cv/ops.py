"""S6 - catalogue of public model-editing operations with state-aware arguments.

Every operation is a function  op(H) -> dict  that performs ONE public call on
H.model (arguments chosen from H.rng and the current state, always through sorted /
ordered containers so that a history is reproducible from its seed) and returns a
JSON-able description of what it did, in identifiers.  Exceptions propagate to the
engine, which records the step as "raised".

Tags:  edit   changes model content (C02 reference applies)
       solver touches the optimisation problem only (ledger)
       rev    documented as reversible inside `with model:` (may be used by C03)
       fail   a form that is expected to raise
"""
import copy
import math
import pickle

from cv import gen

INF = float("inf")
OPS = {}


def op(name, *tags, weight=1.0):
    def deco(f):
        OPS[name] = {"fn": f, "tags": set(tags), "weight": weight, "name": name}
        return f

    return deco


class Skip(Exception):
    """The state offers no sensible argument for this operation."""


class Hist:
    def __init__(self, model, rng, other_recipe=None):
        self.model = model
        self.rng = rng
        self.ledgers = [{"cols": set(), "rows": set()}]
        self.custom_obj = [False]
        self.spare_rxns = []
        self.spare_mets = []
        self.counter = 0
        self._other = None
        self._other_recipe = other_recipe
        self.entered = []  # bookkeeping of open contexts (engine-owned)
        self.keep_ledger_on_exit = False

    # ---- helpers -----------------------------------------------------------
    @property
    def ledger(self):
        return self.ledgers[-1]

    def fresh(self, prefix):
        self.counter += 1
        return f"{prefix}{self.counter}"

    def rxn(self, p_none_ok=False):
        if not len(self.model.reactions):
            raise Skip()
        return self.rng.choice(list(self.model.reactions))

    def met(self):
        if not len(self.model.metabolites):
            raise Skip()
        return self.rng.choice(list(self.model.metabolites))

    def gene(self):
        if not len(self.model.genes):
            raise Skip()
        return self.rng.choice(list(self.model.genes))

    def rxn_with_mets(self):
        c = [r for r in self.model.reactions if len(r.metabolites)]
        if not c:
            raise Skip()
        return self.rng.choice(c)

    def other(self):
        if self._other is None:
            rec = self._other_recipe or gen.network(gen.rng_for("other", self.rng.random()), size=1, genes=2)
            self._other = gen.build(rec)
            self._other.id = "other"
            # the right-hand model of merges is not always tidy: an orphan metabolite (its
            # empty mass balance must not travel as a "custom constraint") and sometimes a
            # genuine custom constraint + variable (documented to be copied)
            import cobra

            orng = gen.rng_for("other-extras", rec.get("seed", 0) if isinstance(rec, dict) else 0, len(rec["rxns"]))
            if orng.random() < 0.6:
                self._other.add_metabolites([cobra.Metabolite("orph_c", compartment="c")])
            if orng.random() < 0.4 and len(self._other.reactions) >= 2:
                r1, r2 = self._other.reactions[0], self._other.reactions[1]
                v = self._other.problem.Variable("other_custom_var", lb=0, ub=7)
                c = self._other.problem.Constraint(r1.flux_expression + r2.flux_expression - v, lb=-50, ub=50, name="other_custom_con")
                self._other.add_cons_vars([v, c])
        return self._other

    def other_custom_names(self):
        """Names of the right-hand model's explicit (non-FBA) variables and constraints."""
        o = self.other()
        o.solver.update()
        cols = {v.name for v in o.solver.variables}
        rows = {c.name for c in o.solver.constraints}
        for r in o.reactions:
            cols -= {r.id, r.reverse_id}
        rows -= {m.id for m in o.metabolites}
        return cols, rows

    def names_now(self):
        s = self.model.solver
        return {v.name for v in s.variables}, {c.name for c in s.constraints}

    def track_added(self, before):
        """Everything that appeared in the solver during an explicit solver-level user
        call goes to the ledger (the user added it explicitly)."""
        v1, c1 = self.names_now()
        own_cols, own_rows = set(), set()
        for r in self.model.reactions:
            own_cols.add(r.id)
            own_cols.add(r.reverse_id)
        for m_ in self.model.metabolites:
            own_rows.add(m_.id)
        self.ledger["cols"] |= (v1 - before[0]) - own_cols
        self.ledger["rows"] |= (c1 - before[1]) - own_rows
        gone_v, gone_c = before[0] - v1, before[1] - c1
        self.ledger["cols"] -= gone_v
        self.ledger["rows"] -= gone_c

    def coef(self):
        return self.rng.choice([1, -1, 2, -2, 0.5, -0.5, 3, 1.5, -1.5, 0.25])

    def sorted_mets(self, r):
        return sorted(r.metabolites, key=lambda m: m.id)


def _ids(xs):
    return [x.id for x in xs]


# ============================================================================
# building
# ============================================================================
@op("model.add_metabolites", "edit", "rev")
def _(H):
    import cobra

    k = H.rng.choice([1, 1, 2, 3])
    mets = []
    for _ in range(k):
        r = H.rng.random()
        if r < 0.6 or not len(H.model.metabolites):
            mets.append(cobra.Metabolite(H.fresh("nm") + H.rng.choice(["_c", "_e"]), compartment=H.rng.choice(["c", "e"]), name="new met"))
        elif r < 0.8:
            mets.append(H.met())  # already there: ignored
        elif H.spare_mets:
            mets.append(H.spare_mets.pop())
        else:
            m0 = H.met()
            mets.append(cobra.Metabolite(m0.id, compartment=m0.compartment))  # other object, taken id: ignored
    single = k == 1 and H.rng.random() < 0.4
    H.model.add_metabolites(mets[0] if single else mets)
    return {"ids": _ids(mets), "single": single}


def _new_reaction(H, rid=None, met_source="model"):
    import cobra

    r = cobra.Reaction(rid or H.fresh("nr"), name="new rxn")
    lb, ub = H.rng.choice([(0, 1000), (-1000, 1000), (0, 10), (-5, 5), (0, INF), (-INF, INF), (2, 8), (-1000, 0), (0, 0), (-2000, 3000)])
    r.bounds = (lb, ub)
    st = {}
    k = H.rng.choice([0, 1, 2, 2, 3])
    used = set()
    for _ in range(k):
        q = H.rng.random()
        if q < 0.55 and len(H.model.metabolites):
            m = H.met()  # the model's own object
            form = "model-object"
        elif q < 0.7 and len(H.model.metabolites):
            m0 = H.met()
            m = cobra.Metabolite(m0.id, compartment=m0.compartment, name="copy")  # copy of an existing id
            form = "copy-of-existing"
        elif q < 0.8 and len(H.other().metabolites):
            m = H.rng.choice(list(H.other().metabolites))  # metabolite of another model
            form = "foreign"
        else:
            m = cobra.Metabolite(H.fresh("nm") + "_c", compartment="c")
            form = "fresh"
        if m.id in used:
            continue
        used.add(m.id)
        st[m] = H.coef()
    r.add_metabolites(st)
    g = H.rng.random()
    if g < 0.5:
        pool = [x.id for x in H.model.genes][:4] + [H.fresh("ng")]
        tree = gen.gpr_tree(H.rng, pool, depth=H.rng.randint(0, 2), arity=3)
        r.gene_reaction_rule = gen.gpr_text(tree)
    return r


def _free_algebra(H):
    """A reaction that is not in a model, produced by arithmetic on model-less reactions in
    which at least one coefficient cancels; returns (reaction, expected stoichiometry) - the
    expectation is dictionary arithmetic with zeros dropped ("If the final coefficient for a
    metabolite is 0 then it is removed from the reaction")."""
    import cobra

    a = _new_reaction(H)
    a.gene_reaction_rule = ""
    st = {m.id: v for m, v in a.metabolites.items()}
    mets = H.sorted_mets(a)
    extra = cobra.Metabolite(H.fresh("nm") + "_c", compartment="c")
    how = H.rng.choice(["a+b", "a-b", "a+=b", "add_metabolites", "subtract_metabolites"])
    if not mets:
        how = "add_metabolites"
    cancel = H.rng.sample(mets, H.rng.randint(1, len(mets))) if mets else []
    delta = {m: -a.metabolites[m] for m in cancel}
    delta[extra] = H.coef()
    exp = dict(st)
    for m, v in delta.items():
        exp[m.id] = exp.get(m.id, 0) + v
    exp = {k: v for k, v in exp.items() if v != 0}
    if how in ("a+b", "a+=b", "a-b"):
        b = cobra.Reaction(H.fresh("fb"), lower_bound=a.lower_bound, upper_bound=a.upper_bound)
        b.add_metabolites({m: (v if how != "a-b" else -v) for m, v in delta.items()})
        if how == "a+b":
            r = a + b
        elif how == "a-b":
            r = a - b
        else:
            a += b
            r = a
    elif how == "add_metabolites":
        a.add_metabolites(delta)
        r = a
    else:
        a.subtract_metabolites({m: -v for m, v in delta.items()})
        r = a
    return r, exp, how


@op("model.add_reactions", "edit", "rev", weight=2)
def _(H):
    rs = []
    expected = {}
    for _ in range(H.rng.choice([1, 1, 2, 3])):
        q = H.rng.random()
        if q < 0.15:
            r, exp, how = _free_algebra(H)
            rs.append(r)
            expected[r.id] = (exp, how)
        elif q < 0.7 or not len(H.model.reactions):
            rs.append(_new_reaction(H))
        elif q < 0.8:
            rs.append(_new_reaction(H, rid=H.rxn().id))  # id taken: ignored
        elif H.spare_rxns:
            rs.append(H.spare_rxns.pop())
        else:
            rs.append(_new_reaction(H))
    desc = {"reactions": [{"id": r.id, "stoich": expected[r.id][0] if r.id in expected else {m.id: v for m, v in r.metabolites.items()}, "bounds": list(r.bounds), "rule": r.gene_reaction_rule} for r in rs]}
    if expected:
        desc["free_algebra"] = sorted(hw for _e, hw in expected.values())
    H.model.add_reactions(rs)
    return desc


@op("model.add_reactions.failing", "edit", "rev", "fail", weight=0.5)
def _(H):
    # an identifier the solver interface refuses (whitespace), alone or after / before a
    # valid reaction: the call raises, nothing may be left half done
    taken = sorted(H.ledger["cols"] & {v.name for v in H.model.solver.variables})
    if taken and H.rng.random() < 0.5:
        bad = _new_reaction(H, rid=H.rng.choice(taken))  # name of a variable the user added
    else:
        bad = _new_reaction(H, rid=H.fresh("bad ") + " id")
    q = H.rng.random()
    rs = [bad] if q < 0.4 else ([_new_reaction(H), bad] if q < 0.7 else [bad, _new_reaction(H)])
    H.model.add_reactions(rs)
    return {"ids": _ids(rs)}


@op("model.add_metabolites.failing", "edit", "rev", "fail", weight=0.5)
def _(H):
    import cobra

    bad = cobra.Metabolite(H.fresh("bad ") + " met_c", compartment="c")
    good = cobra.Metabolite(H.fresh("nm") + "_c", compartment="c")
    q = H.rng.random()
    ms = [bad] if q < 0.4 else ([good, bad] if q < 0.7 else [bad, good])
    H.model.add_metabolites(ms)
    return {"ids": _ids(ms)}


@op("reaction.id=.failing", "edit", "fail", weight=0.4)
def _(H):
    r = H.rxn()
    q = H.rng.random()
    if q < 0.15:
        r.id = H.fresh("long") + "x" * 300  # beyond GLPK's name length
    elif q < 0.3:
        r.id = H.fresh("long") + "y" * 245  # the id fits, the derived reverse-variable name does not
    elif q < 0.6:
        r.id = H.fresh("bad ") + " id"  # refused by the solver interface
    elif q < 0.8:
        o = H.rxn()
        if o is r:
            raise Skip()
        r.id = o.id  # taken
    else:
        r.id = 7  # not a string
    return {"id": r.id}


@op("metabolite.id=.failing", "edit", "fail", weight=0.4)
def _(H):
    m = H.met()
    q = H.rng.random()
    if q < 0.2:
        m.id = H.fresh("long") + "z" * 300 + "_c"  # beyond GLPK's name length
    elif q < 0.6:
        m.id = H.fresh("bad ") + " met_c"
    elif q < 0.8:
        o = H.met()
        if o is m:
            raise Skip()
        m.id = o.id
    else:
        m.id = 7
    return {"id": m.id}


def _detached(H):
    """A reaction that was removed and has not come back (a context exit may have re-added
    some of the remembered ones)."""
    cand = [r for r in H.spare_rxns if getattr(r, "_model", None) is None and r.id not in H.model.reactions]
    if not cand:
        raise Skip()
    return H.rng.choice(cand)


@op("detached.bounds=", "edit", "rev", "detached", weight=0.8)
def _(H):
    """Edit a reaction that has been removed from the model (it may come back when a
    context is left or through add_reactions): bounds, knock-out or sign flip."""
    r = _detached(H)
    q = H.rng.random()
    if q < 0.5:
        b = H.rng.choice([(0, 3), (-7, 7), (1, 2), (0, 0), (-4, 0)])
        r.bounds = b
        what = ["bounds", list(b)]
    elif q < 0.75:
        r.knock_out()
        what = ["knock_out"]
    else:
        r *= -1
        what = ["*=-1"]
    return {"id": r.id, "what": what}


@op("detached.gene_reaction_rule=", "edit", "rev", "detached", weight=0.8)
def _(H):
    """Change the rule of a removed reaction, keeping one of its genes if it has any."""
    if H.model._contexts:
        # a reaction removed inside an open context comes back on exit with the gene objects
        # recorded at removal; what a rule edit in between means is nobody's to say
        raise Skip()
    r = _detached(H)
    keep = sorted(g.id for g in r.genes)[:1]
    pool = keep + [x.id for x in H.model.genes][:2] + [H.fresh("ng")]
    tree = gen.gpr_tree(H.rng, pool, depth=H.rng.randint(0, 1), arity=2)
    rule = gen.gpr_text(tree)
    if keep and keep[0] not in rule:
        rule = f"{keep[0]} and ({rule})"
    r.gene_reaction_rule = rule
    return {"id": r.id, "rule": rule}


@op("model.add_boundary", "edit", "rev", weight=1.5)
def _(H):
    m = H.met()
    typ = H.rng.choice(["exchange", "demand", "sink", "custom"])
    kw = {}
    if typ == "custom":
        kw = {"type": "my-boundary", "reaction_id": H.fresh("CB_"), "lb": H.rng.choice([-10, 0]), "ub": H.rng.choice([10, 1000]), "sbo_term": "SBO:0000627"}
    else:
        kw = {"type": typ}
        if H.rng.random() < 0.3:
            kw["lb"], kw["ub"] = H.rng.choice([(-20, 30), (0, 5)])
        if H.rng.random() < 0.2:
            kw["reaction_id"] = H.fresh("B_")
    r = H.model.add_boundary(m, **kw)
    return {"met": m.id, "kw": kw, "created": r.id}


@op("model.add_boundary.failing", "edit", "rev", "fail", weight=0.5)
def _(H):
    m = H.met()
    q = H.rng.random()
    if q < 0.4:
        kw = {"type": "weird"}  # custom type without id -> ValueError
    elif q < 0.7:
        ex = [r for r in H.model.reactions if r.id.startswith(("EX_", "DM_", "SK_"))]
        if not ex:
            raise Skip()
        r0 = H.rng.choice(ex)
        pre = r0.id[:2]
        typ = {"EX": "exchange", "DM": "demand", "SK": "sink"}[pre]
        mid = r0.id[3:]
        if mid not in H.model.metabolites:
            raise Skip()
        m = H.model.metabolites.get_by_id(mid)
        kw = {"type": typ}  # id exists (or not external) -> ValueError
    else:
        ints = [x for x in H.model.metabolites if x.compartment == "c"]
        if not ints or not any(x.compartment == "e" for x in H.model.metabolites):
            raise Skip()
        m = H.rng.choice(ints)
        kw = {"type": "exchange"}  # not external -> ValueError
    H.model.add_boundary(m, **kw)
    return {"met": m.id, "kw": kw}


@op("model.add_groups", "edit")
def _(H):
    import cobra

    members = []
    for _ in range(H.rng.randint(0, 3)):
        q = H.rng.random()
        if q < 0.5 and len(H.model.reactions):
            members.append(H.rxn())
        elif q < 0.8 and len(H.model.metabolites):
            members.append(H.met())
        elif len(H.model.genes):
            members.append(H.gene())
    g = cobra.core.Group(H.fresh("grp"), name="a group", members=members, kind=H.rng.choice(["collection", "classification", "partonomy"]))
    if H.rng.random() < 0.2 and len(H.model.groups):
        g = cobra.core.Group(H.model.groups[0].id)  # taken id: ignored
    H.model.add_groups([g])
    return {"id": g.id, "members": [[type(x).__name__, x.id] for x in members]}


@op("model.remove_groups", "edit")
def _(H):
    if not len(H.model.groups):
        raise Skip()
    g = H.rng.choice(list(H.model.groups))
    H.model.remove_groups([g])
    return {"id": g.id}


# ============================================================================
# removing
# ============================================================================
@op("model.remove_reactions", "edit", "rev", weight=2)
def _(H):
    k = H.rng.choice([1, 1, 2])
    rs = []
    for _ in range(k):
        r = H.rxn()
        if r not in rs:
            rs.append(r)
    form = H.rng.choice(["objects", "ids", "single-object", "single-id", "mixed"])
    orphans = H.rng.random() < 0.4
    if form == "objects":
        arg = list(rs)
    elif form == "ids":
        arg = _ids(rs)
    elif form == "single-object":
        rs = rs[:1]
        arg = rs[0]
    elif form == "single-id":
        rs = rs[:1]
        arg = rs[0].id
    else:
        arg = [rs[0]] + _ids(rs[1:])
    absent = H.rng.random() < 0.15 and isinstance(arg, list)
    if absent:
        arg = arg + ["not_in_model"]
    H.model.remove_reactions(arg, remove_orphans=orphans)
    H.spare_rxns.extend(rs)
    return {"ids": _ids(rs), "form": form, "remove_orphans": orphans, "with_absent": absent}


@op("reaction.remove_from_model", "edit", "rev")
def _(H):
    r = H.rxn()
    orphans = H.rng.random() < 0.5
    r.remove_from_model(remove_orphans=orphans)
    H.spare_rxns.append(r)
    return {"id": r.id, "remove_orphans": orphans}


@op("model.remove_metabolites", "edit", "rev", weight=1.5)
def _(H):
    ms = []
    for _ in range(H.rng.choice([1, 1, 2])):
        m = H.met()
        if m not in ms:
            ms.append(m)
    destructive = H.rng.random() < 0.35
    single = len(ms) == 1 and H.rng.random() < 0.4
    repeat = not single and H.rng.random() < 0.15  # a metabolite named twice is removed once (as remove_reactions does)
    H.model.remove_metabolites(ms[0] if single else (ms + [ms[0]] if repeat else ms), destructive=destructive)
    H.spare_mets.extend(ms)
    return {"ids": _ids(ms), "destructive": destructive, "single": single, "repeated_entry": repeat}


@op("metabolite.remove_from_model", "edit", "rev", weight=0.5)
def _(H):
    m = H.met()
    destructive = H.rng.random() < 0.3
    m.remove_from_model(destructive=destructive)
    H.spare_mets.append(m)
    return {"id": m.id, "destructive": destructive}


@op("manipulation.remove_genes", "edit", "rev", weight=1.5)
def _(H):
    from cobra.manipulation import remove_genes

    gs = []
    for _ in range(H.rng.choice([1, 1, 2])):
        g = H.gene()
        if g not in gs:
            gs.append(g)
    rr = H.rng.random() < 0.5
    form = H.rng.choice(["objects", "ids"])
    remove_genes(H.model, gs if form == "objects" else _ids(gs), remove_reactions=rr)
    return {"ids": _ids(gs), "remove_reactions": rr, "form": form}


# ============================================================================
# renaming
# ============================================================================
@op("reaction.id=", "edit")
def _(H):
    r = H.rxn()
    old = r.id
    q = H.rng.random()
    new = H.fresh("rn") if q < 0.8 else (old if q < 0.9 else H.rxn().id)
    if H.rng.random() < 0.2:
        new = H.fresh("rn.") + "-x"  # dots and dashes
    r.id = new
    return {"old": old, "new": new}


@op("metabolite.id=", "edit")
def _(H):
    m = H.met()
    old = m.id
    q = H.rng.random()
    new = H.fresh("mn") + "_c" if q < 0.8 else (old if q < 0.9 else H.met().id)
    m.id = new
    return {"old": old, "new": new}


@op("manipulation.rename_genes", "edit", "rev")
def _(H):
    from cobra.manipulation import rename_genes

    g = H.gene()
    q = H.rng.random()
    others = [x.id for x in H.model.genes if x.id != g.id]
    if q < 0.45 or not others:
        d = {g.id: H.fresh("gn")}
    elif q < 0.65:
        d = {g.id: H.rng.choice(others)}  # merge onto an existing gene
    elif q < 0.78:
        # two genes renamed to the same new identifier: the second is merged into the first
        new = H.fresh("gn")
        d = {g.id: new, H.rng.choice(others): new}
    elif q < 0.9:
        # several genes at once (no value equals another key: that is documented as undefined)
        d = {g.id: H.fresh("gn")}
        for o in H.rng.sample(others, min(len(others), H.rng.randint(1, 2))):
            d[o] = H.fresh("gn")
    else:
        d = {g.id: H.fresh("gn"), "not_a_gene": "zzz"}
    rename_genes(H.model, d)
    return {"map": d}


# ============================================================================
# stoichiometry
# ============================================================================
@op("reaction.add_metabolites", "edit", "rev", weight=3)
def _(H):
    import cobra

    r = H.rxn()
    combine = H.rng.random() < 0.65
    d, desc = {}, {}
    cur = H.sorted_mets(r)
    for _ in range(H.rng.choice([1, 1, 2, 3])):
        q = H.rng.random()
        if q < 0.3 and cur:
            m = H.rng.choice(cur)
            key, form = m, "in-reaction-object"
        elif q < 0.4 and cur:
            m = H.rng.choice(cur)
            key, form = m.id, "in-reaction-id"
        elif q < 0.6:
            m = H.met()
            key, form = m, "model-object"
        elif q < 0.7:
            m = H.met()
            key, form = m.id, "model-id"
        elif q < 0.8:
            m = cobra.Metabolite(H.fresh("nm") + "_c", compartment="c")
            key, form = m, "fresh-object"
        elif q < 0.9 and len(H.other().metabolites):
            m = H.rng.choice(list(H.other().metabolites))
            key, form = m, "foreign-object"
        else:
            m0 = H.met()
            m = cobra.Metabolite(m0.id, compartment=m0.compartment)
            key, form = m, "copy-of-existing"
        mid = key if isinstance(key, str) else key.id
        if mid in desc:
            continue
        v = H.coef()
        if H.rng.random() < 0.25 and combine and form.startswith("in-reaction"):
            v = -r.metabolites[m]  # cancels to zero
        d[key] = v
        desc[mid] = [v, form]
    r.add_metabolites(d, combine=combine)
    return {"id": r.id, "mets": desc, "combine": combine}


@op("reaction.add_metabolites.failing", "edit", "rev", "fail", weight=0.7)
def _(H):
    r = H.rxn()
    d = {}
    if len(H.model.metabolites):
        d[H.met()] = H.coef()
    q = H.rng.random()
    if q < 0.6:
        d["no_such_metabolite"] = 1.0  # KeyError in the middle / at the end
    elif q < 0.8:
        import cobra

        d[cobra.Metabolite("")] = 1.0  # object with an empty identifier: ValueError
    else:
        import cobra

        d[cobra.Metabolite(H.fresh("bad ") + " met_c", compartment="c")] = 1.0  # refused by the solver interface
    if len(H.model.metabolites) and H.rng.random() < 0.5:
        d[H.met().id] = H.coef()
    r.add_metabolites(d, combine=H.rng.random() < 0.5)
    return {"id": r.id}


@op("reaction.subtract_metabolites", "edit", "rev")
def _(H):
    r = H.rxn_with_mets()
    cur = H.sorted_mets(r)
    ms = H.rng.sample(cur, H.rng.randint(1, len(cur)))
    d = {}
    for m in ms:
        d[m] = r.metabolites[m] if H.rng.random() < 0.5 else H.coef()
    r.subtract_metabolites(d, combine=True)
    return {"id": r.id, "mets": {m.id: v for m, v in d.items()}}


@op("reaction+=", "edit", "rev")
def _(H):
    r = H.rxn()
    if H.rng.random() < 0.6:
        o = H.rxn()
        src = "model"
    else:
        o = _new_reaction(H)
        src = "free"
    desc = {"id": r.id, "other": o.id, "other_src": src, "other_stoich": {m.id: v for m, v in o.metabolites.items()}, "other_rule": o.gene_reaction_rule}
    r += o
    return desc


@op("reaction-=", "edit", "rev")
def _(H):
    r = H.rxn()
    o = H.rxn() if H.rng.random() < 0.7 else _new_reaction(H)
    desc = {"id": r.id, "other": o.id, "other_stoich": {m.id: v for m, v in o.metabolites.items()}}
    r -= o
    return desc


@op("reaction*=", "edit", "rev", weight=1.5)
def _(H):
    r = H.rxn()
    # a sign flip swaps and negates the bounds: one-sided ranges on the far side of zero ((-8, -2), (2, 8), fixed fluxes)
    # are where doing that in two steps goes wrong, so they are preferred when the model has any
    far = [x for x in H.model.reactions if x.upper_bound < 0 or x.lower_bound > 0]
    if far and H.rng.random() < 0.4:
        r = H.rng.choice(far)
    c = H.rng.choice([2, -1, 0.5, -2, 3, 1.5, -0.5, 4])
    r *= c
    return {"id": r.id, "factor": c}


@op("reaction*=.failing", "edit", "rev", "fail", weight=0.3)
def _(H):
    r = H.rxn_with_mets()
    r *= 0  # nothing sensible to scale to: must be refused with the reaction untouched
    return {"id": r.id, "factor": 0}


@op("detached.copy", "edit", "rev", "detached", weight=0.6)
def _(H):
    # copying a reaction that has left the model must not touch the model's metabolites and genes it still uses
    r = _detached(H)
    c = r.copy()
    return {"id": r.id, "copy_has_model": c.model is not None}


@op("reaction.reaction=", "edit", "rev")
def _(H):
    r = H.rxn()
    ms = [H.met().id for _ in range(H.rng.randint(1, 3))] if len(H.model.metabolites) else []
    ms = list(dict.fromkeys(ms))
    if H.rng.random() < 0.3:
        ms.append(H.fresh("nm") + "_c")
    if ms and H.rng.random() < 0.3:
        # the same metabolite in more than one term (same side: the terms add up; both
        # sides: they cancel or leave the difference)
        ms.insert(H.rng.randint(0, len(ms)), H.rng.choice(ms))
    arrow = H.rng.choice(["-->", "<=>", "<--", "->", "<->", "<==>"])
    k = H.rng.randint(0, len(ms))
    fmt = lambda m: m if H.rng.random() < 0.6 else f"{H.rng.choice([2, 0.5, 3])} {m}"
    s = " + ".join(fmt(m) for m in ms[:k]) + f" {arrow} " + " + ".join(fmt(m) for m in ms[k:])
    r.build_reaction_from_string(s, verbose=False) if H.rng.random() < 0.5 else setattr(r, "reaction", s)
    return {"id": r.id, "string": s}


@op("reaction.reaction=.failing", "edit", "rev", "fail", weight=0.3)
def _(H):
    r = H.rxn()
    r.build_reaction_from_string("a_c + b_c no arrow here", verbose=False)
    return {"id": r.id}


# ============================================================================
# bounds
# ============================================================================
BOUNDS = [(0, 1000), (-1000, 1000), (0, 0), (-10, 10), (0, INF), (-INF, INF), (-INF, 0), (2, 8), (-8, -2), (3, 3), (-1000, 0), (-2000, 3000), (0.5, 1.5), (-3, -3)]


@op("reaction.bounds=", "edit", "rev", weight=3)
def _(H):
    r = H.rxn()
    b = H.rng.choice(BOUNDS)
    r.bounds = b
    return {"id": r.id, "bounds": [gen._jb(b[0]), gen._jb(b[1])]}


@op("reaction.lower_bound=", "edit", "rev", weight=2)
def _(H):
    r = H.rxn()
    v = H.rng.choice([0, -1000, -10, -INF, 1, -5, 0.5, 2000, -2000])
    r.lower_bound = v  # raises ValueError when above the current upper bound
    return {"id": r.id, "value": gen._jb(v)}


@op("reaction.upper_bound=", "edit", "rev", weight=2)
def _(H):
    r = H.rxn()
    v = H.rng.choice([0, 1000, 10, INF, -1, 5, 0.5, 3000, -2000])
    r.upper_bound = v
    return {"id": r.id, "value": gen._jb(v)}


@op("reaction.bounds=.failing", "edit", "rev", "fail", weight=0.5)
def _(H):
    r = H.rxn()
    r.bounds = (5, -5)
    return {"id": r.id}


@op("reaction.knock_out", "edit", "rev")
def _(H):
    r = H.rxn()
    r.knock_out()
    return {"id": r.id}


@op("model.medium=", "edit", "rev")
def _(H):
    ex = H.model.exchanges
    if not ex:
        raise Skip()
    ex = sorted(ex, key=lambda r: r.id)
    chosen = H.rng.sample(ex, H.rng.randint(0, len(ex)))
    d = {r.id: H.rng.choice([0, 1, 10, 5.5, 1000]) for r in chosen}
    H.model.medium = d
    return {"medium": d, "exchanges": [r.id for r in ex]}


# ============================================================================
# gene rules and knock-outs
# ============================================================================
@op("reaction.gene_reaction_rule=", "edit", "rev", weight=2)
def _(H):
    r = H.rxn()
    pool = [x.id for x in H.model.genes][:5]
    if H.rng.random() < 0.5 or not pool:
        pool = pool + [H.fresh("ng")]
    q = H.rng.random()
    if q < 0.15:
        rule = ""
    else:
        tree = gen.gpr_tree(H.rng, pool, depth=H.rng.randint(0, 3), arity=3)
        rule = gen.gpr_text(tree, H.rng, H.rng.choice(gen.STYLES))
    r.gene_reaction_rule = rule
    return {"id": r.id, "rule": rule}


@op("reaction.gpr=", "edit", "rev")
def _(H):
    from cobra.core.gene import GPR

    r = H.rxn()
    pool = [x.id for x in H.model.genes][:4] + [H.fresh("ng")]
    tree = gen.gpr_tree(H.rng, pool, depth=2, arity=2)
    rule = gen.gpr_text(tree)
    r.gpr = GPR.from_string(rule)
    return {"id": r.id, "rule": rule}


@op("gene.knock_out", "edit", "rev", weight=1.5)
def _(H):
    g = H.gene()
    g.knock_out()
    return {"id": g.id}


@op("manipulation.knock_out_model_genes", "edit", "rev")
def _(H):
    from cobra.manipulation import knock_out_model_genes

    gs = list(dict.fromkeys(H.gene() for _ in range(H.rng.randint(1, 3))))
    form = H.rng.choice(["objects", "ids", "indices"])
    arg = gs if form == "objects" else (_ids(gs) if form == "ids" else [H.model.genes.index(g) for g in gs])
    knock_out_model_genes(H.model, arg)
    return {"ids": _ids(gs), "form": form}


@op("gene.functional=", "edit", "rev", weight=0.5)
def _(H):
    g = H.gene()
    v = H.rng.random() < 0.5
    g.functional = v
    return {"id": g.id, "value": v}


# ============================================================================
# objective
# ============================================================================
@op("model.objective=", "edit", "rev", weight=3)
def _(H):
    form = H.rng.choice(["dict", "dict", "id", "index", "reaction", "list", "optlang", "sympy", "empty-dict"])
    m = H.model
    if form == "empty-dict":
        m.objective = {}
        desc = {}
    elif form == "dict":
        rs = list(dict.fromkeys(H.rxn() for _ in range(H.rng.randint(1, 3))))
        d = {r: H.rng.choice([1, 1, -1, 0.5, 2, -3]) for r in rs}
        m.objective = d
        desc = {r.id: v for r, v in d.items()}
    elif form == "id":
        r = H.rxn()
        m.objective = r.id
        desc = {r.id: 1}
    elif form == "index":
        r = H.rxn()
        m.objective = m.reactions.index(r)
        desc = {r.id: 1}
    elif form == "reaction":
        r = H.rxn()
        m.objective = r
        desc = {r.id: 1}
    elif form == "list":
        rs = list(dict.fromkeys(H.rxn() for _ in range(2)))
        m.objective = [rs[0], rs[-1].id] if len(rs) > 1 else [rs[0]]
        desc = {r.id: 1 for r in rs}
    elif form == "optlang":
        r = H.rxn()
        c = H.rng.choice([1, 2, -1, 0.5])
        direction = H.rng.choice(["max", "min"])
        m.objective = m.problem.Objective(c * r.flux_expression, direction=direction)
        desc = {r.id: c, "direction": direction}
    else:
        r, r2 = H.rxn(), H.rxn()
        c = H.rng.choice([1, 2, -1])
        expr = c * r.flux_expression + (3 * r2.flux_expression if r2 is not r else 0)
        m.objective = expr
        desc = {r.id: c} if r2 is r else {r.id: c, r2.id: 3}
    H.custom_obj[-1] = False
    return {"form": form, "coefs": desc}


@op("model.objective=.failing", "edit", "rev", "fail", weight=0.6)
def _(H):
    import cobra
    from cobra.util.solver import set_objective

    q = H.rng.random()
    if q < 0.35 or not len(H.model.reactions):
        H.model.objective = "no_such_reaction"
        return {"form": "unknown id"}
    # a reaction that is not part of the model, alone or behind one that is: nothing may be left half done
    foreign = cobra.Reaction(H.fresh("foreign"))
    own = H.rxn()
    if q < 0.55:
        H.model.objective = {foreign: 1}
        return {"form": "dict with a reaction outside the model"}
    if q < 0.8:
        H.model.objective = {own: 2, foreign: 1}
        return {"form": "dict: model reaction, then a reaction outside the model"}
    if q < 0.9:
        set_objective(H.model, {own: 2.0, foreign: 1.0}, additive=True)
        return {"form": "set_objective(additive=True) with a reaction outside the model"}
    other = H.rxn()
    H.model.objective = {own: 1.5, other: H.rng.choice(["abc", None, [1]])}
    return {"form": "dict with a coefficient that is not a number"}


@op("reaction.objective_coefficient=", "edit", "rev", weight=1.5)
def _(H):
    r = H.rxn()
    v = H.rng.choice([1, 0, -1, 2, 0.5])
    r.objective_coefficient = v
    return {"id": r.id, "value": v}


@op("model.objective_direction=", "edit", "rev", weight=1.5)
def _(H):
    v = H.rng.choice(["max", "min", "maximize", "minimize", "MAX", "Min"])
    H.model.objective_direction = v
    return {"value": v}


@op("model.objective_direction=.failing", "edit", "rev", "fail", weight=0.2)
def _(H):
    H.model.objective_direction = "sideways"
    return {}


# ============================================================================
# solver level
# ============================================================================
@op("model.add_cons_vars", "solver", "rev", weight=2)
def _(H):
    m = H.model
    before = H.names_now()
    q = H.rng.random()
    if q < 0.5 and len(m.reactions):
        rs = list(dict.fromkeys(H.rxn() for _ in range(H.rng.randint(1, 3))))
        expr = sum(H.rng.choice([1, -1, 2]) * r.flux_expression for r in rs)
        lb, ub = H.rng.choice([(None, 10), (-5, None), (-5, 5), (0, 0)])
        c = m.problem.Constraint(expr, lb=lb, ub=ub, name=H.fresh("uc_"))
        m.add_cons_vars([c])
        desc = {"constraint": c.name, "on": _ids(rs)}
    else:
        v = m.problem.Variable(H.fresh("uv_"), lb=H.rng.choice([0, -1]), ub=H.rng.choice([1, 5, None]), type=H.rng.choice(["continuous", "continuous", "binary" if m.problem.__name__.endswith("glpk_interface") else "continuous"]))
        what = [v]
        if len(m.reactions) and H.rng.random() < 0.6:
            r = H.rxn()
            what.append(m.problem.Constraint(r.flux_expression - 2 * v, lb=None, ub=0, name=H.fresh("uc_")))
        m.add_cons_vars(what)
        desc = {"variable": v.name, "n": len(what)}
    H.track_added(before)
    return desc


@op("model.add_cons_vars.failing", "solver", "rev", "fail", weight=0.5)
def _(H):
    # a name the solver already uses - behind a fresh item, so that a lazy failure would leave half a list added
    m = H.model
    m.solver.update()
    taken = sorted(v.name for v in m.solver.variables)
    fresh = m.problem.Variable(H.fresh("uv_"), lb=0, ub=1)
    q = H.rng.random()
    if q < 0.5 and taken:
        clash = m.problem.Variable(H.rng.choice(taken), lb=0, ub=1)
        form = "fresh variable, then a variable named like an existing one"
    elif q < 0.75:
        clash = m.problem.Variable(fresh.name, lb=0, ub=2)
        form = "two variables of one name"
    else:
        rows = sorted(c.name for c in m.solver.constraints)
        if not rows:
            raise Skip()
        clash = m.problem.Constraint(fresh * 1, lb=0, ub=1, name=H.rng.choice(rows))
        form = "fresh variable, then a constraint named like an existing one"
    m.add_cons_vars([fresh, clash])
    m.solver.update()  # a lazy solver interface reports the collision only here
    return {"form": form}


@op("model.remove_cons_vars", "solver", "rev")
def _(H):
    m = H.model
    rows = sorted(H.ledger["rows"])
    cols = sorted(H.ledger["cols"])
    cand = [("row", n) for n in rows if n in m.constraints and n.startswith("uc_")]
    # only remove a user variable when no user constraint still refers to it
    used = set()
    for n in rows:
        if n in m.constraints:
            used |= {v.name for v in m.constraints[n].variables}
    cand += [("col", n) for n in cols if n in m.variables and n.startswith("uv_") and n not in used]
    if not cand:
        raise Skip()
    kind, n = H.rng.choice(cand)
    before = H.names_now()
    m.remove_cons_vars([m.constraints[n] if kind == "row" else m.variables[n]])
    H.track_added(before)
    return {"removed": n}


@op("util.fix_objective_as_constraint", "solver", "rev")
def _(H):
    from cobra.util.solver import fix_objective_as_constraint

    before = H.names_now()
    try:
        b = fix_objective_as_constraint(H.model, fraction=H.rng.choice([1.0, 0.9, 0.5]))
    finally:
        H.track_added(before)
    return {"bound": b}


@op("util.add_absolute_expression", "solver", "rev", weight=0.5)
def _(H):
    from cobra.util.solver import add_absolute_expression

    r = H.rxn()
    before = H.names_now()
    add_absolute_expression(H.model, r.flux_expression, name=H.fresh("uv_abs"), ub=H.rng.choice([None, 100]), difference=H.rng.choice([0, 1.5]))
    H.track_added(before)
    return {"on": r.id}


def _need_finite(H):
    """ROOM and the loopless MILP use the flux bounds as big-M coefficients; with an
    infinite bound the coefficient is infinite and GLPK aborts the process while scaling
    (garbage in) - outside the documented domain, so not generated."""
    if any(math.isinf(r.lower_bound) or math.isinf(r.upper_bound) for r in H.model.reactions):
        raise Skip()


def _helper(H, fn, **kw):
    before = H.names_now()
    try:
        fn(H.model, **kw)
    finally:
        H.track_added(before)
        H.custom_obj[-1] = True


@op("flux_analysis.add_pfba", "solver", "rev")
def _(H):
    from cobra.flux_analysis.parsimonious import add_pfba

    _helper(H, add_pfba, fraction_of_optimum=H.rng.choice([1.0, 0.8]))
    return {}


@op("flux_analysis.add_moma", "solver", "rev")
def _(H):
    from cobra.flux_analysis.moma import add_moma

    _helper(H, add_moma, linear=True)
    return {}


@op("flux_analysis.add_room", "solver", "rev", weight=0.6)
def _(H):
    from cobra.flux_analysis.room import add_room

    _need_finite(H)
    # the MILP form only on small models (GLPK's branch and bound can take minutes)
    _helper(H, add_room, linear=H.rng.random() < 0.7 or len(H.model.reactions) > 12)
    return {}


@op("flux_analysis.add_loopless", "solver", "rev", weight=0.4)
def _(H):
    from cobra.flux_analysis.loopless import add_loopless

    _need_finite(H)
    if any(v.name.startswith("indicator_") for v in H.model.variables):
        raise Skip()  # applying the loopless transformation twice is not a documented use
    before = H.names_now()
    try:
        add_loopless(H.model)
    finally:
        H.track_added(before)
    return {}


@op("model.solver=", "solver", weight=1.5)
def _(H):
    new = H.rng.choice(["glpk", "glpk_exact"])
    # check_solver documents three argument forms: a name, an optlang interface module, and
    # an optlang Model (meaning "the interface of that problem"; the model keeps its own
    # problem, translated).  The instance handed over is an unrelated one-variable problem,
    # so a model that adopts it instead of translating its own is seen by the LP read-back.
    form = H.rng.choice(["name", "name", "module", "instance"])
    if form == "name":
        H.model.solver = new
    else:
        import optlang

        iface = getattr(optlang, new + "_interface")
        if form == "module":
            H.model.solver = iface
        else:
            other = iface.Model()
            other.add(iface.Variable("cv_foreign_column", lb=0, ub=1))
            other.update()
            H.model.solver = other
    return {"solver": new, "form": form}


@op("model.tolerance=", "solver", weight=0.4)
def _(H):
    v = H.rng.choice([1e-7, 1e-9, 1e-6])
    H.model.tolerance = v
    return {"value": v}


@op("model.optimize", "solver", "rev", weight=2)
def _(H):
    q = H.rng.random()
    if q < 0.4:
        v = H.model.slim_optimize()
    elif q < 0.8:
        v = H.model.optimize(objective_sense=H.rng.choice([None, "maximize", "minimize"])).objective_value
    else:
        v = H.model.slim_optimize(error_value=None)  # raises when there is no optimum
    return {"value": None if v is None or v != v else v}


# ============================================================================
# whole model
# ============================================================================
@op("model.copy", "whole", weight=1.2)
def _(H):
    kind = H.rng.choice(["copy", "deepcopy", "pickle"])
    m = H.model
    if kind == "copy":
        new = m.copy()
    elif kind == "deepcopy":
        new = copy.deepcopy(m)
    else:
        new = pickle.loads(pickle.dumps(m, protocol=H.rng.choice([2, 4, pickle.HIGHEST_PROTOCOL])))
    H.model = new  # continue on the copy; contexts do not carry over
    H.ledgers = [dict(cols=set(H.ledger["cols"]), rows=set(H.ledger["rows"]))]
    H.custom_obj = [H.custom_obj[-1]]
    H.entered = []
    H.spare_rxns, H.spare_mets = [], []
    return {"kind": kind}


@op("model.merge", "edit", "rev", weight=0.8)
def _(H):
    other = H.other()
    prefix = H.rng.choice([None, None, "o_"])
    inplace = H.rng.random() < 0.7
    objective = H.rng.choice(["left", "left", "right", "sum"])
    before = H.names_now()
    new = H.model.merge(other, prefix_existing=prefix, inplace=inplace, objective=objective)
    if not inplace:
        H.model = new
        H.ledgers = [dict(cols=set(H.ledger["cols"]), rows=set(H.ledger["rows"]))]
        H.custom_obj = [H.custom_obj[-1]]
        H.entered = []
        H.spare_rxns, H.spare_mets = [], []
    # "Custom constraints and variables from right models are also copied" (docstring):
    # explicit additions, for the in-place and the copying form alike - exactly the right
    # model's non-FBA variables and constraints, nothing else (not its mass balances)
    ocols, orows = H.other_custom_names()
    H.ledger["cols"] |= ocols
    H.ledger["rows"] |= orows
    return {"prefix": prefix, "inplace": inplace, "objective": objective, "right_reactions": _ids(other.reactions)}


@op("model.repair", "edit", weight=0.3)
def _(H):
    H.model.repair()
    return {}


def pick(H, allowed):
    """Weighted choice of an op name among `allowed`."""
    names = sorted(allowed)
    w = [OPS[n]["weight"] for n in names]
    return H.rng.choices(names, weights=w, k=1)[0]


def names(with_tags=(), without_tags=()):
    out = []
    for n, o in OPS.items():
        if all(t in o["tags"] for t in with_tags) and not any(t in o["tags"] for t in without_tags):
            out.append(n)
    return out
