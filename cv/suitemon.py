"""Monitors armed while the repository's own test-suite runs (workload "suite").

The generated workloads of the drivers are one source of executions; the repository's
tests are another, written by other people for other purposes (textbook / E. coli core
and genome-scale fixtures, real files, option combinations nobody here thought of).
This module wraps the real functions at run time - nothing in /repo is edited - and
*records* what it sees; it never raises into the code under observation, so the tests'
own outcomes are untouched (they are not part of any verdict either).

One monitor per property; each is an oracle that is valid for *every* call, whatever
the test is doing:

  C01  at every solver.optimize() on a solver owned by a cobra model: the core of the
       flux-balance problem is intact (every reaction's pair of columns with the
       reaction's bounds, every metabolite's row with the current stoichiometry).
  C04  after Model.optimize()/slim_optimize() on a model whose solver holds exactly the
       plain flux-balance problem: status optimal implies primal feasibility, objective
       value = c.v and the LP-duality certificate (c04.judge_float).
  C12  after Model.copy(): equivalent content and solver problem, no shared object.
  C13  around every analysis function: the model (content, cross references, raw LP)
       is the same before and after, whether the call returns or raises.
  C15  after every mutating DictList method: list and id index agree.
  C16  after ACHRSampler/OptGPSampler.sample(): every row satisfies S v = 0 and the
       bounds of the sampler's model within the documented tolerance.

Events go to $CV_SUITEMON_LOG/ev-<pid>.jsonl (one file per process: xdist workers and
forked pool workers each write their own).
"""
import functools
import json
import math
import os
import sys
import weakref

_S = {"dir": None, "test": None, "counters": {}, "busy": 0, "pid": None, "fh": None, "installed": set()}
BIG = 400  # models beyond this many reactions are checked on a sample of the calls only


# ---------------------------------------------------------------------------------------
# event log
# ---------------------------------------------------------------------------------------
def _fh():
    pid = os.getpid()
    if _S["pid"] != pid:  # forked child: own file, own counters
        _S["pid"] = pid
        _S["counters"] = {}
        d = _S["dir"] or os.environ.get("CV_SUITEMON_LOG")
        os.makedirs(d, exist_ok=True)
        _S["fh"] = open(os.path.join(d, f"ev-{pid}.jsonl"), "a", buffering=1)
    return _S["fh"]


def emit(rec):
    try:
        _fh().write(json.dumps(rec, default=repr) + "\n")
    except Exception:
        pass


def count(name, n=1):
    _fh()
    c = _S["counters"]
    c[name] = c.get(name, 0) + n
    if sum(c.values()) % 500 == 0:
        flush()


def flush():
    emit({"k": "counters", "pid": os.getpid(), "counters": dict(_S["counters"])})


def violation(prop, key, msg, extra=None):
    count(f"{prop}.violations")
    emit({"k": "viol", "prop": prop, "key": key, "msg": str(msg)[:800], "test": _S["test"], "extra": extra})


class SuiteAcc:
    """The slice of cv.acc.Acc the drivers' oracles use, routed to the event log."""

    def __init__(self, prop):
        self.prop = prop

    def violation(self, key, msg, ctx=None):
        violation(self.prop, key.replace(self.prop + "/", self.prop + "/suite/", 1), msg, None)

    def count(self, name, n=1):
        count(f"{self.prop}.{name}", n)

    def ev(self, *a, **k):
        pass

    def add(self, *a, **k):
        pass

    def journal(self, *a, **k):
        pass

    def harness_error(self, what, e=None):
        count(f"{self.prop}.oracle_errors")
        emit({"k": "oracle_error", "prop": self.prop, "what": what, "err": repr(e)[:400], "test": _S["test"]})


class _Guard:
    """Monitors look at the model through the public API, which is itself monitored:
    nested evaluation is switched off while one monitor runs."""

    def __enter__(self):
        _S["busy"] += 1

    def __exit__(self, *a):
        _S["busy"] -= 1
        return False


def busy():
    return _S["busy"] > 0


def patch_everywhere(orig, wrapper):
    """Replace every module-level reference to `orig` inside cobra (re-exports are bound
    at import time) by `wrapper`."""
    n = 0
    for name, mod in list(sys.modules.items()):
        if mod is None or not (name == "cobra" or name.startswith("cobra.")):
            continue
        for attr, val in list(vars(mod).items()):
            if val is orig:
                setattr(mod, attr, wrapper)
                n += 1
    return n


def _sampled(model, every=40):
    """True when this call is to be checked: always for small models, one call in
    `every` for large ones (counted)."""
    n = len(model.reactions)
    if n <= BIG:
        return True
    k = _S.setdefault("big_calls", 0) + 1
    _S["big_calls"] = k
    if k % every == 1:
        return True
    count("large_model_calls_not_checked")
    return False


# ---------------------------------------------------------------------------------------
# C01
# ---------------------------------------------------------------------------------------
_MODELS = weakref.WeakSet()


def _track_models():
    if "track" in _S["installed"]:
        return
    import cobra

    init, setstate = cobra.Model.__init__, cobra.Model.__setstate__

    @functools.wraps(init)
    def __init__(self, *a, **k):
        init(self, *a, **k)
        try:
            _MODELS.add(self)
        except Exception:
            pass

    @functools.wraps(setstate)
    def __setstate__(self, state):
        setstate(self, state)
        try:
            _MODELS.add(self)
        except Exception:
            pass

    cobra.Model.__init__ = __init__
    cobra.Model.__setstate__ = __setstate__
    _S["installed"].add("track")


def _owner(solver):
    for m in list(_MODELS):
        if m.__dict__.get("_solver") is solver:
            return m
    return None


def install_c01():
    import optlang.interface as oi
    from cv import observe

    _track_models()
    orig = oi.Model.optimize

    @functools.wraps(orig)
    def optimize(self, *a, **k):
        if not busy():
            m = _owner(self)
            if m is None:
                count("C01.optimize_on_solver_without_model")
            elif any(r.__dict__.get("_model") is not m for r in m.reactions):
                # precondition (C02's subject, not C01's): the model's own lists are consistent.  Met in the suite:
                # GapFiller.validate() lends the reactions of its private working model to the user's model.
                count("C01.models_with_reactions_pointing_elsewhere_not_judged")
            elif _sampled(m):
                with _Guard():
                    count("C01.core_checks_at_optimize")
                    try:
                        probs = observe.fba_problems(m, core_only=True, check_objective=False, foreign_cols_ok=True)
                    except Exception as e:
                        probs = []
                        count("C01.core_unreadable")
                        emit({"k": "oracle_error", "prop": "C01", "what": "core unreadable", "err": repr(e)[:300], "test": _S["test"]})
                    if probs:
                        violation("C01", "C01/suite/core-not-intact-at-optimize", probs[0], {"problems": probs[:4], "n_reactions": len(m.reactions)})
        return orig(self, *a, **k)

    oi.Model.optimize = optimize


# ---------------------------------------------------------------------------------------
# C04
# ---------------------------------------------------------------------------------------
def install_c04():
    import cobra
    from cobra.core.solution import get_solution
    from cv import observe
    from cv.props import c04

    acc = SuiteAcc("C04")
    c04._ACC.update(acc=acc, ctx={}, armed=False)
    o_opt, o_slim = cobra.Model.optimize, cobra.Model.slim_optimize

    def plain(model):
        try:
            return not observe.fba_problems(model)
        except Exception:
            return False

    def judge(model, sol, where, sense):
        try:
            c04.judge_float(model, sol, where, sense)
        except AssertionError as e:
            acc.harness_error("oracle", e)
        except Exception as e:
            acc.harness_error("judge", e)

    @functools.wraps(o_opt)
    def optimize(self, objective_sense=None, raise_error=False):
        sol = o_opt(self, objective_sense=objective_sense, raise_error=raise_error)
        if not busy() and _sampled(self, 10):
            with _Guard():
                if not plain(self):
                    count("C04.not_the_plain_fba_problem_skipped")
                else:
                    count("C04.optimize_judged")
                    c04._ACC["ctx"] = {"test": _S["test"]}
                    judge(self, sol, "optimize", objective_sense)
        return sol

    @functools.wraps(o_slim)
    def slim_optimize(self, error_value=float("nan"), message=None):
        val = o_slim(self, error_value=error_value, message=message)
        if not busy() and _sampled(self, 200):
            with _Guard():
                try:
                    status = self.solver.status
                except Exception:
                    status = None
                if status != "optimal":
                    count("C04.slim_non_optimal")
                elif not plain(self):
                    count("C04.not_the_plain_fba_problem_skipped")
                else:
                    count("C04.slim_judged")
                    c04._ACC["ctx"] = {"test": _S["test"]}
                    try:
                        sol = get_solution(self)
                    except Exception as e:
                        acc.harness_error("get_solution", e)
                        sol = None
                    if sol is not None:
                        if not isinstance(val, float) or math.isnan(val) or abs(val - sol.objective_value) > 1e-9 * max(1.0, abs(val)):
                            violation("C04", "C04/suite/slim_optimize/value-differs-from-solver-objective", f"slim_optimize returned {val}, the solver's objective value is {sol.objective_value}")
                        judge(self, sol, "slim_optimize", None)
        return val

    cobra.Model.optimize = optimize
    cobra.Model.slim_optimize = slim_optimize


# ---------------------------------------------------------------------------------------
# C12
# ---------------------------------------------------------------------------------------
def install_c12():
    import cobra
    from cv import observe
    from cv.props import c12

    orig = cobra.Model.copy

    @functools.wraps(orig)
    def copy(self):
        if busy() or not _sampled(self, 25):
            return orig(self)
        with _Guard():
            try:
                before = observe.snapshot(self)
            except Exception:
                before = None
        new = orig(self)
        with _Guard():
            try:
                if before is None or before["xref"]:
                    # precondition: the original is a consistent model (tests/test_io/test_io_order.py builds one
                    # whose metabolites are shared with another model)
                    count("C12.inconsistent_originals_not_judged")
                    return new
                count("C12.copies_checked")
                after = observe.snapshot(self)
                cp = observe.snapshot(new)
                if before is not None:
                    d0 = observe.snapshot_diff(before, after)
                    if d0:
                        violation("C12", "C12/suite/copy-changed-the-original", d0[0], {"diff": d0[:5]})
                d = observe.snapshot_diff(after, cp)
                if d:
                    violation("C12", "C12/suite/copy-not-equivalent", d[0], {"diff": d[:5]})
                sh = c12.identity_problems(self, new)
                if sh:
                    violation("C12", "C12/suite/" + ("shared-" + c12.share_class(sh[0]) if sh[0].startswith("shared") else "back-pointer"), sh[0], {"problems": sh[:5]})
            except Exception as e:
                count("C12.oracle_errors")
                emit({"k": "oracle_error", "prop": "C12", "what": "compare", "err": repr(e)[:300], "test": _S["test"]})
        return new

    cobra.Model.copy = copy


# ---------------------------------------------------------------------------------------
# C13
# ---------------------------------------------------------------------------------------
ANALYSES = [
    ("cobra.flux_analysis.variability", "flux_variability_analysis"),
    ("cobra.flux_analysis.variability", "find_blocked_reactions"),
    ("cobra.flux_analysis.variability", "find_essential_genes"),
    ("cobra.flux_analysis.variability", "find_essential_reactions"),
    ("cobra.flux_analysis.parsimonious", "pfba"),
    ("cobra.flux_analysis.moma", "moma"),
    ("cobra.flux_analysis.room", "room"),
    ("cobra.flux_analysis.geometric", "geometric_fba"),
    ("cobra.flux_analysis.loopless", "loopless_solution"),
    ("cobra.flux_analysis.deletion", "single_gene_deletion"),
    ("cobra.flux_analysis.deletion", "single_reaction_deletion"),
    ("cobra.flux_analysis.deletion", "double_gene_deletion"),
    ("cobra.flux_analysis.deletion", "double_reaction_deletion"),
    ("cobra.flux_analysis.phenotype_phase_plane", "production_envelope"),
    ("cobra.flux_analysis.reaction", "assess"),
    ("cobra.flux_analysis.reaction", "assess_component"),
    ("cobra.flux_analysis.reaction", "assess_precursors"),
    ("cobra.flux_analysis.reaction", "assess_products"),
    ("cobra.flux_analysis.fastcc", "fastcc"),
    ("cobra.flux_analysis.gapfilling", "gapfill"),
    ("cobra.medium.minimal_medium", "minimal_medium"),
    ("cobra.sampling.sampling", "sample"),
]


def install_c13():
    import importlib

    import cobra
    from cv import observe

    def wrap(name, fn):
        @functools.wraps(fn)
        def analysis(model, *a, **k):
            if busy() or not isinstance(model, cobra.Model) or not _sampled(model, 5):
                return fn(model, *a, **k)
            with _Guard():
                try:
                    before = observe.snapshot(model)
                except Exception:
                    before = None
            try:
                return fn(model, *a, **k)
            finally:
                if before is not None:
                    with _Guard():
                        count("C13.analysis_calls_checked")
                        count(f"C13.calls.{name}")
                        try:
                            d = observe.snapshot_diff(before, observe.snapshot(model))
                        except Exception as e:
                            d = []
                            count("C13.oracle_errors")
                            emit({"k": "oracle_error", "prop": "C13", "what": name, "err": repr(e)[:300], "test": _S["test"]})
                        if d:
                            raised = sys.exc_info()[0] is not None
                            violation("C13", f"C13/suite/{name}/model-changed" + ("-after-raise" if raised else ""), d[0], {"diff": d[:5]})

        return analysis

    for modname, name in ANALYSES:
        mod = sys.modules.get(modname) or importlib.import_module(modname)
        mod = sys.modules[modname]  # the attribute of the package may be the function (re-export shadows the module)
        fn = getattr(mod, name, None)
        if fn is None:
            continue
        patch_everywhere(fn, wrap(name, fn))

    # Model.optimize / slim_optimize / summary are methods
    for name in ("optimize", "slim_optimize", "summary"):
        fn = getattr(cobra.Model, name)
        setattr(cobra.Model, name, wrap("model." + name, fn))


# ---------------------------------------------------------------------------------------
# C15
# ---------------------------------------------------------------------------------------
MUTATORS = [
    "append", "extend", "union", "insert", "pop", "remove", "reverse", "sort", "add", "_replace_on_id",
    "__iadd__", "__isub__", "__setitem__", "__delitem__", "__setstate__", "__setslice__", "__delslice__", "_extend_nocheck",
]  # fmt: skip


def _coherence(dl):
    items = list(list.__iter__(dl))
    d = dl.__dict__.get("_dict")
    if not isinstance(d, dict):
        return None
    if len(d) != len(items):
        return f"index has {len(d)} entries for {len(items)} elements"
    n = len(items)
    if n <= 300:
        rng = range(n)
    else:  # ends plus a stride: a shift error moves everything behind it
        rng = list(range(0, 50)) + list(range(50, n - 50, max(1, n // 100))) + list(range(n - 50, n))
    for pos in rng:
        x = items[pos]
        if d.get(x.id) != pos:
            return f"{x.id!r} indexed at {d.get(x.id)} but sits at {pos}"
    return None


def install_c15():
    from cobra.core.dictlist import DictList

    def wrap(name, fn):
        @functools.wraps(fn)
        def method(self, *a, **k):
            try:
                return fn(self, *a, **k)
            finally:
                if not busy():
                    with _Guard():
                        count("C15.mutations_checked")
                        raised = sys.exc_info()[0] is not None
                        try:
                            err = _coherence(self)
                        except Exception:
                            err = None
                            count("C15.elements_without_id")
                        if err:
                            violation("C15", f"C15/suite/{name}/index-incoherent" + ("-after-raise" if raised else ""), err, {"size": len(self)})

        return method

    for name in MUTATORS:
        fn = DictList.__dict__.get(name)
        if fn is not None:
            setattr(DictList, name, wrap(name, fn))


# ---------------------------------------------------------------------------------------
# C16
# ---------------------------------------------------------------------------------------
def install_c16():
    import numpy as np
    from cobra.sampling import ACHRSampler, OptGPSampler
    from cv.props import c16

    def wrap(cls):
        fn = cls.sample

        @functools.wraps(fn)
        def sample(self, n, fluxes=True):
            df = fn(self, n, fluxes=fluxes)
            if busy():
                return df
            with _Guard():
                try:
                    model = self.model
                    tol = max(self.feasibility_tol, getattr(self, "bounds_tol", 0.0) or 0.0)
                    names = list(df.columns)
                    space = "fluxes" if fluxes else "variables"
                    count("C16.frames_checked")
                    if fluxes and names != [r.id for r in model.reactions]:
                        violation("C16", "C16/suite/columns-are-not-the-reactions-in-order", f"{names[:4]} vs {[r.id for r in model.reactions][:4]}")
                    rows = df.to_numpy()
                    step = max(1, len(rows) // 25)
                    for row in rows[::step]:
                        count("C16.rows_checked")
                        eq, bd = c16.independent_errors(model, [], row, space, names)
                        if eq > 2 * tol or bd > 2 * tol:
                            if c16.documented_drift(self, np.asarray(row) if fluxes else row, eq, bd, tol) and fluxes is False:
                                count("C16.documented_drift_rows")
                            else:
                                # validate() works in variable space; for flux frames fall back to the size rule
                                if bd <= 2 * tol and eq <= 100 * tol:
                                    count("C16.documented_drift_rows")
                                else:
                                    violation("C16", f"C16/suite/{cls.__name__}/infeasible-sample", f"equality residual {eq:.3g}, bound violation {bd:.3g}, tolerance {tol:.3g}", {"n": n, "thinning": self.thinning})
                                    break
                except Exception as e:
                    count("C16.oracle_errors")
                    emit({"k": "oracle_error", "prop": "C16", "what": "sample", "err": repr(e)[:300], "test": _S["test"]})
            return df

        cls.sample = sample

    wrap(ACHRSampler)
    wrap(OptGPSampler)


# ---------------------------------------------------------------------------------------
# C03 (contexts): the state at the outermost __enter__ comes back at the matching __exit__.
# The suite's blocks are written by the repository's authors; what the monitor cannot know
# is whether a block holds something the documentation does not list as reversible - a
# difference is therefore reported with the test's name and triaged once (DESIGN 9.4c).
# ---------------------------------------------------------------------------------------
def install_c03():
    import re

    import cobra
    import cobra.util.solver as su
    from cv import observe

    enter, exit_ = cobra.Model.__enter__, cobra.Model.__exit__
    open_ = {}  # id(model) -> [depth, snapshot, names of removed variables, weakref]

    @functools.wraps(enter)
    def __enter__(self):
        st = open_.get(id(self))
        if st is None or st[3]() is not self:
            snap = None
            if not busy() and _sampled(self, 10):
                with _Guard():
                    try:
                        snap = observe.snapshot(self)
                    except Exception:
                        snap = None
            open_[id(self)] = st = [0, snap, set(), weakref.ref(self)]
        st[0] += 1
        return enter(self)

    @functools.wraps(exit_)
    def __exit__(self, typ, val, tb):
        try:
            return exit_(self, typ, val, tb)
        finally:
            st = open_.get(id(self))
            if st is not None and st[3]() is self:
                st[0] -= 1
                if st[0] <= 0:
                    del open_[id(self)]
                    if st[1] is not None and not busy():
                        with _Guard():
                            count("C03.outermost_exits_checked")
                            try:
                                d = observe.snapshot_diff(st[1], observe.snapshot(self))
                            except Exception:
                                d = []
                                count("C03.oracle_errors")
                            if d:
                                known = bool(st[2])
                                for line in d:
                                    m = re.match(r"^LP (?:row \S+|objective): coef on (\S+) (\S+) -> (\S+)$", line)
                                    if not m or m.group(1) not in st[2] or float(m.group(3)) != 0.0:
                                        known = False
                                key = "C03/not-restored/removed-variable-comes-back-without-its-coefficients" if known else "C03/suite/not-restored" + ("-after-exception" if typ is not None else "")
                                violation("C03", key, d[0], {"diff": d[:6]})

    cobra.Model.__enter__ = __enter__
    cobra.Model.__exit__ = __exit__

    orig = su.remove_cons_vars_from_problem

    @functools.wraps(orig)
    def remove_cons_vars_from_problem(model, what):
        st = open_.get(id(model))
        if st is not None:
            try:
                items = what if isinstance(what, (list, tuple)) else [what]
                st[2].update(x.name for x in items if isinstance(x, model.problem.Variable))
            except Exception:
                pass
        return orig(model, what)

    patch_everywhere(orig, remove_cons_vars_from_problem)


# ---------------------------------------------------------------------------------------
# C02: cross references are consistent at every quiescent point (optimize / slim_optimize
# entry: cobrapy never optimises in the middle of an edit)
# ---------------------------------------------------------------------------------------
def _xref_class(e):
    for frag, cls in (
        ("that is not in the model (dangling)", "dangling"),
        ("share one gene rule object", "shared-rule-object"),
        ("duplicate", "duplicate-ids"),
        (".model is not the model", "back-pointer"),
        ("get_by_id returns another object", "index"),
        ("index ", "index"),
        ("lookup raised", "index"),
        ("zero coefficient", "zero-coefficient"),
        ("not in model.metabolites", "metabolite-missing"),
        ("is not the model's object", "foreign-object"),
        ("which does not list the reaction", "one-sided-reference"),
        ("which does not list the metabolite", "one-sided-reference"),
        ("which does not list the gene", "one-sided-reference"),
        ("not in model.genes", "gene-missing"),
        ("!= genes of rule", "genes-vs-rule"),
        ("is not in the model", "group-member-outside"),
    ):
        if frag in e:
            return cls
    return "other"


def _gapfiller_working_model(model):
    """Proves the recorded mechanism: the model is the private working copy of a GapFiller that is
    running right now (a caller's `self` is a GapFiller whose .model is this model and whose
    .original_model is another one)."""
    from cobra.flux_analysis.gapfilling import GapFiller

    f = sys._getframe(1)
    while f is not None:
        me = f.f_locals.get("self")
        if isinstance(me, GapFiller) and getattr(me, "model", None) is model and getattr(me, "original_model", None) is not model:
            return True
        f = f.f_back
    return False


def install_c02():
    import cobra
    from cv import observe

    def wrap(fn):
        @functools.wraps(fn)
        def method(self, *a, **k):
            if not busy() and _sampled(self, 200):
                with _Guard():
                    count("C02.xref_checks_at_optimize")
                    try:
                        errs = observe.xref_errors(self)
                    except Exception as e:
                        errs = []
                        count("C02.oracle_errors")
                        emit({"k": "oracle_error", "prop": "C02", "what": "xref", "err": repr(e)[:300], "test": _S["test"]})
                    seen = set()
                    lent = errs and _gapfiller_working_model(self) and all(_xref_class(e) == "back-pointer" for e in errs)
                    for e in errs:
                        cls = _xref_class(e)
                        if cls in seen:
                            continue
                        seen.add(cls)
                        if lent:
                            key = "C02/xref/gapfiller-working-model-objects-lose-their-model"
                        elif cls == "dangling":
                            key = "C02/xref/metabolite-or-gene-lists-a-reaction-outside-the-model"
                        else:
                            key = f"C02/suite/xref/{cls}"
                        violation("C02", key, e, {"n_errors": len(errs)})
            return fn(self, *a, **k)

        return method

    cobra.Model.optimize = wrap(cobra.Model.optimize)
    cobra.Model.slim_optimize = wrap(cobra.Model.slim_optimize)

    # ... and at the return of every outermost public editing operation
    depth = [0]

    def judge(model, where, raised):
        count("C02.xref_checks_after_edit")
        try:
            errs = observe.xref_errors(model)
        except Exception as e:
            count("C02.oracle_errors")
            emit({"k": "oracle_error", "prop": "C02", "what": "xref after " + where, "err": repr(e)[:300], "test": _S["test"]})
            return
        seen = set()
        for e in errs:
            cls = _xref_class(e)
            if cls in seen:
                continue
            seen.add(cls)
            key = "C02/xref/metabolite-or-gene-lists-a-reaction-outside-the-model" if cls == "dangling" else f"C02/suite/xref/{cls}/after-{where}" + ("-raised" if raised else "")
            violation("C02", key, e, {"n_errors": len(errs), "operation": where})

    def model_of(x):
        if isinstance(x, cobra.Model):
            return x
        return getattr(x, "_model", None)

    def wrap_edit(where, fn, arg=0):
        @functools.wraps(fn)
        def edit(*a, **k):
            target = a[arg] if len(a) > arg else k.get("model", k.get("cobra_model"))
            m = model_of(target)
            pre_ok = None
            if depth[0] == 0 and not busy() and isinstance(m, cobra.Model) and len(m.reactions) <= BIG:
                with _Guard():
                    try:
                        pre_ok = not observe.xref_errors(m)
                    except Exception:
                        pre_ok = None
                    if pre_ok is False:
                        count("C02.edits_of_models_already_inconsistent_not_judged")
            depth[0] += 1
            try:
                return fn(*a, **k)
            finally:
                depth[0] -= 1
                if pre_ok:
                    with _Guard():
                        judge(m, where, sys.exc_info()[0] is not None)

        return edit

    for cls, names in (
        (cobra.Model, ["add_reactions", "remove_reactions", "add_metabolites", "remove_metabolites", "add_boundary", "add_groups", "remove_groups", "merge", "repair"]),
        (cobra.Reaction, ["add_metabolites", "subtract_metabolites", "build_reaction_from_string", "remove_from_model", "delete", "knock_out", "__iadd__", "__isub__", "__imul__"]),
        (cobra.Metabolite, ["remove_from_model"]),
    ):
        for name in names:
            fn = cls.__dict__.get(name)
            if fn is not None:
                setattr(cls, name, wrap_edit(f"{cls.__name__}.{name}", fn))
    for pname in ("gene_reaction_rule", "gpr", "id"):
        prop = cobra.Reaction.__dict__.get(pname)
        if isinstance(prop, property) and prop.fset is not None:
            setattr(cobra.Reaction, pname, property(prop.fget, wrap_edit(f"Reaction.{pname}=", prop.fset), prop.fdel, prop.__doc__))
    import cobra.manipulation.delete as md
    import cobra.manipulation.modify as mm

    for mod, names in ((md, ["remove_genes", "knock_out_model_genes", "prune_unused_metabolites", "prune_unused_reactions"]), (mm, ["rename_genes", "escape_ID"])):
        for name in names:
            fn = getattr(mod, name, None)
            if fn is not None:
                patch_everywhere(fn, wrap_edit("manipulation." + name, fn))


# ---------------------------------------------------------------------------------------
# C07: after a gene knock-out (Gene.knock_out, knock_out_model_genes) a reaction is closed
# iff its rule - read by an independent parser - is false with the non-functional genes
# absent; every other reaction keeps the bounds it had before the call.
# ---------------------------------------------------------------------------------------
def install_c07():
    import cobra
    import cobra.manipulation.delete as md
    from cv import gen, refmodel

    depth = [0]

    def wrap(where, fn, model_of):
        @functools.wraps(fn)
        def ko(*a, **k):
            m = model_of(*a, **k)
            before = None
            if depth[0] == 0 and not busy() and isinstance(m, cobra.Model) and len(m.reactions) <= BIG:
                with _Guard():
                    before = {r.id: tuple(r.bounds) for r in m.reactions}
            depth[0] += 1
            try:
                return fn(*a, **k)
            finally:
                depth[0] -= 1
                if before is not None and sys.exc_info()[0] is None:
                    with _Guard():
                        count("C07.knockouts_checked")
                        try:
                            absent = {g.id for g in m.genes if not g.functional}
                            for r in m.reactions:
                                rule = r.gene_reaction_rule
                                if r.id not in before:
                                    continue
                                if rule and any(ch in rule for ch in "\"'"):
                                    count("C07.rules_with_quotes_skipped")
                                    continue
                                alive = gen.gpr_eval(refmodel.parse_rule(rule), absent) if rule else True
                                now = tuple(r.bounds)
                                if not alive and now != (0, 0):
                                    violation("C07", f"C07/suite/{where}/not-disabled-although-rule-false", f"{r.id} rule {rule!r} is false without {sorted(absent)} but bounds are {now}")
                                    break
                                if alive and now != before[r.id]:
                                    violation("C07", f"C07/suite/{where}/bounds-changed-although-rule-true", f"{r.id} rule {rule!r} is true without {sorted(absent)} but bounds went {before[r.id]} -> {now}")
                                    break
                                if bool(r.functional) != alive:
                                    violation("C07", f"C07/suite/{where}/reaction.functional", f"{r.id}.functional is {r.functional}, rule {rule!r} evaluates to {alive} without {sorted(absent)}")
                                    break
                        except Exception as e:
                            count("C07.oracle_errors")
                            emit({"k": "oracle_error", "prop": "C07", "what": where, "err": repr(e)[:300], "test": _S["test"]})

        return ko

    cobra.Gene.knock_out = wrap("Gene.knock_out", cobra.Gene.knock_out, lambda self, *a, **k: getattr(self, "_model", None))
    fn = md.knock_out_model_genes
    patch_everywhere(fn, wrap("knock_out_model_genes", fn, lambda model, *a, **k: model))


# ---------------------------------------------------------------------------------------
# C20: every summary object built by a test is judged against the solution it describes
# (given, or the defaulted pFBA solution captured at the summary module's own call).
# ---------------------------------------------------------------------------------------
def install_c20():
    import importlib

    import cobra
    import pandas as pd
    from cv.props import c20

    acc = SuiteAcc("C20")
    captured = {}
    for modname in ("cobra.summary.model_summary", "cobra.summary.metabolite_summary", "cobra.summary.reaction_summary"):
        importlib.import_module(modname)
        mod = sys.modules[modname]
        orig = mod.pfba

        def tap(*a, _orig=orig, **k):
            s = _orig(*a, **k)
            captured["last"] = s
            return s

        mod.pfba = tap

    def wrap(kind, fn):
        @functools.wraps(fn)
        def summary(self, solution=None, fva=None):
            captured.pop("last", None)
            obj = fn(self, solution=solution, fva=fva)
            if busy():
                return obj
            with _Guard():
                try:
                    model = self if kind == "model" else self.model
                    use = solution if solution is not None else captured.get("last")
                    if use is None or model is None or len(model.reactions) > BIG:
                        count("C20.summaries_not_judged")
                        return obj
                    flux = {r.id: float(use.fluxes[r.id]) for r in model.reactions}
                    frame = fva if isinstance(fva, pd.DataFrame) else None
                    tol = model.tolerance
                    ident = {"test": _S["test"]}
                    count(f"C20.{kind}_summaries_judged")
                    if kind == "model":
                        if all(len(r.metabolites) == 1 for r in model.boundary):
                            c20.judge_model_summary(acc, model, obj, flux, frame, tol, ident, lambda: None)
                    elif kind == "metabolite":
                        c20.judge_metabolite_summary(acc, model, self, obj, flux, frame, tol, ident, lambda: None, steady=True)
                    else:
                        fr_ = obj.to_frame()
                        if list(fr_.index) != [self.id] or not c20.close(float(fr_.at[self.id, "flux"]), flux[self.id]):
                            violation("C20", "C20/suite/reaction/flux", f"reaction summary of {self.id} shows {fr_.to_dict()}, solution flux {flux[self.id]}")
                    c20.render_all(acc, obj, kind, ident)
                except Exception as e:
                    count("C20.oracle_errors")
                    emit({"k": "oracle_error", "prop": "C20", "what": kind, "err": repr(e)[:300], "test": _S["test"]})
            return obj

        return summary

    cobra.Model.summary = wrap("model", cobra.Model.summary)
    cobra.Metabolite.summary = wrap("metabolite", cobra.Metabolite.summary)
    cobra.Reaction.summary = wrap("reaction", cobra.Reaction.summary)


INSTALLERS = {"C07": install_c07, "C20": install_c20, "C02": install_c02, "C01": install_c01, "C03": install_c03, "C04": install_c04, "C12": install_c12, "C13": install_c13, "C15": install_c15, "C16": install_c16}


def install(props, logdir):
    _S["dir"] = logdir
    for p in props:
        if p in INSTALLERS and p not in _S["installed"]:
            INSTALLERS[p]()
            _S["installed"].add(p)
            count(f"{p}.monitor_installed")
    flush()


def set_test(nodeid):
    end_test()
    _S["test"] = nodeid
    _S["evals_at_test_start"] = sum(v for k, v in _S["counters"].items() if k.endswith(EVAL_SUFFIXES))


EVAL_SUFFIXES = ("knockouts_checked", "summaries_judged", "xref_checks_at_optimize", "xref_checks_after_edit", "core_checks_at_optimize", "outermost_exits_checked", "optimize_judged", "slim_judged", "copies_checked", "analysis_calls_checked", "mutations_checked", "rows_checked")


def end_test():
    if _S.get("test") is not None and _S["pid"] == os.getpid():
        n = sum(v for k, v in _S["counters"].items() if k.endswith(EVAL_SUFFIXES)) - _S.get("evals_at_test_start", 0)
        if n > 0:
            emit({"k": "test", "id": _S["test"], "evals": n})
    _S["test"] = None
