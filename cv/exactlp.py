"""S3 - exact rational LP oracle with certificates.

    optimise  c.x   s.t.  A x = b,  lo <= x <= hi     (lo may be None=-inf, hi None=+inf)

`solve()` is a bounded-variable primal simplex over fractions.Fraction (two phases,
Bland's rule).  It returns a Result carrying a *certificate*; `certify()` re-checks
the certificate with nothing but rational arithmetic on the original data, so the
trusted base is certify(), not the simplex:

  optimal     x feasible; y with reduced costs d = c - A^T y satisfying the sign
              conditions at the bounds; hence c.x is the optimum.
  infeasible  Farkas vector y:  sup_{lo<=x<=hi} (y^T A) x  <  y^T b
  unbounded   feasible x and a ray z (A z = 0, z respects the infinite bounds) with
              c.z improving.

Inequality rows are expressed by the caller with explicit slack columns
(`LP.add_row(..., lb, ub)` does this).
"""
from fractions import Fraction as F

ZERO = F(0)
ONE = F(1)


def fr(x):
    if x is None:
        return None
    if isinstance(x, F):
        return x
    if isinstance(x, float):
        if x == float("inf") or x == float("-inf"):
            return None
        return F(x)  # exact
    return F(x)


class Result:
    __slots__ = ("status", "x", "obj", "y", "ray", "sense")

    def __init__(self, status, x=None, obj=None, y=None, ray=None, sense="min"):
        self.status = status
        self.x = x
        self.obj = obj
        self.y = y
        self.ray = ray
        self.sense = sense


class LP:
    """Small builder: variables with bounds, equality / range rows."""

    def __init__(self):
        self.lo = []
        self.hi = []
        self.names = []
        self.rows = []  # list of dict col->coef
        self.b = []
        self.rownames = []

    def add_var(self, lo=ZERO, hi=None, name=None):
        self.lo.append(fr(lo) if lo is not None else None)
        self.hi.append(fr(hi) if hi is not None else None)
        self.names.append(name if name is not None else f"x{len(self.lo)-1}")
        return len(self.lo) - 1

    def add_row(self, coefs, lb=ZERO, ub=ZERO, name=None):
        """lb <= coefs.x <= ub ; lb/ub None = infinite.  Range rows get a slack."""
        row = {j: fr(v) for j, v in coefs.items() if v != 0}
        lb = fr(lb) if lb is not None else None
        ub = fr(ub) if ub is not None else None
        if lb is not None and ub is not None and lb == ub:
            self.rows.append(row)
            self.b.append(lb)
        else:
            s = self.add_var(lo=lb, hi=ub, name=f"_slack_{name or len(self.rows)}")
            row[s] = -ONE
            self.rows.append(row)
            self.b.append(ZERO)
        self.rownames.append(name if name is not None else f"r{len(self.rows)-1}")
        return len(self.rows) - 1

    def copy(self):
        o = LP()
        o.lo, o.hi, o.names = list(self.lo), list(self.hi), list(self.names)
        o.rows = [dict(r) for r in self.rows]
        o.b, o.rownames = list(self.b), list(self.rownames)
        return o

    def solve(self, c, sense="min"):
        """c: dict col->coef."""
        return solve(self.rows, self.b, self.lo, self.hi, c, sense, len(self.lo))


def solve(rows, b, lo, hi, c, sense="min", n=None):
    """rows: list of dict col->Fraction, b: list, lo/hi: lists (None = inf),
    c: dict col->coef.  Returns a certified Result (raises AssertionError if the
    certificate does not check, which would be an oracle bug, never a verdict)."""
    n = len(lo) if n is None else n
    m = len(rows)
    cvec = [ZERO] * n
    for j, v in c.items():
        cvec[j] = fr(v)
    if sense == "max":
        cmin = [-v for v in cvec]
    else:
        cmin = list(cvec)
    res = _simplex(rows, b, lo, hi, cmin, n, m)
    res.sense = sense
    if res.status == "optimal":
        res.obj = sum((cvec[j] * res.x[j] for j in range(n) if cvec[j]), ZERO)
    ok, why = certify(rows, b, lo, hi, cvec, sense, res)
    assert ok, "exact oracle certificate failed: " + why
    return res


# ----------------------------------------------------------------------------
def _simplex(rows, b, lo, hi, c, n, m):
    # columns: 0..n-1 structural, n..n+m-1 artificial
    N = n + m
    # nonbasic start values
    xval = [ZERO] * N
    at = [0] * N  # 0 = at lower, 1 = at upper, 2 = free-nonbasic(at 0), 3 = basic
    for j in range(n):
        if lo[j] is not None:
            xval[j], at[j] = lo[j], 0
        elif hi[j] is not None:
            xval[j], at[j] = hi[j], 1
        else:
            xval[j], at[j] = ZERO, 2
    # dense tableau rows (list of lists) for T = B^-1 [A | S]
    T = []
    sgn = []
    basis = []
    for i in range(m):
        r = [ZERO] * N
        for j, v in rows[i].items():
            r[j] = v
        resid = b[i] - sum((v * xval[j] for j, v in rows[i].items()), ZERO)
        s = ONE if resid >= 0 else -ONE
        sgn.append(s)
        # artificial column i has coefficient s in row i; scale row so it is +1
        if s < 0:
            r = [-v for v in r]
        r[n + i] = ONE
        T.append(r)
        xval[n + i] = abs(resid)
        at[n + i] = 3
        basis.append(n + i)
    lo2 = list(lo) + [ZERO] * m
    hi2 = list(hi) + [None] * m

    def run(cost):
        # reduced costs d_j = cost_j - cost_B . T[:,j]
        while True:
            cb = [cost[basis[i]] for i in range(m)]
            enter, direction = -1, 0
            for j in range(N):
                if at[j] == 3:
                    continue
                if lo2[j] is not None and hi2[j] is not None and lo2[j] == hi2[j]:
                    continue  # fixed
                d = cost[j]
                for i in range(m):
                    if cb[i] and T[i][j]:
                        d -= cb[i] * T[i][j]
                if d < 0 and at[j] in (0, 2):
                    enter, direction = j, 1
                    break
                if d > 0 and at[j] in (1, 2):
                    enter, direction = j, -1
                    break
            if enter < 0:
                return "optimal", None
            j = enter
            # ratio test: x_j moves by t*direction (t>=0); basic i changes by -T[i][j]*direction*t
            best_t = None
            leave = -1
            leave_to = 0
            if direction > 0 and hi2[j] is not None:
                best_t = hi2[j] - xval[j]
            elif direction < 0 and lo2[j] is not None:
                best_t = xval[j] - lo2[j]
            for i in range(m):
                a = T[i][j] * direction
                if a == 0:
                    continue
                bi = basis[i]
                if a > 0:  # basic decreases
                    if lo2[bi] is None:
                        continue
                    t = (xval[bi] - lo2[bi]) / a
                    to = 0
                else:  # basic increases
                    if hi2[bi] is None:
                        continue
                    t = (xval[bi] - hi2[bi]) / a
                    to = 1
                if best_t is None or t < best_t or (t == best_t and leave >= 0 and bi < basis[leave]):
                    best_t, leave, leave_to = t, i, to
            if best_t is None:
                return "unbounded", (j, direction)
            t = best_t
            # update values
            if t != 0:
                xval[j] += direction * t
                for i in range(m):
                    if T[i][j]:
                        xval[basis[i]] -= T[i][j] * direction * t
            if leave < 0:
                # bound flip
                at[j] = 1 if direction > 0 else 0
                continue
            # pivot on (leave, j)
            bi = basis[leave]
            piv = T[leave][j]
            rowp = T[leave]
            if piv != 1:
                rowp = [v / piv if v else v for v in rowp]
                T[leave] = rowp
            for i in range(m):
                if i != leave:
                    f = T[i][j]
                    if f:
                        ri = T[i]
                        T[i] = [ri[k] - f * rowp[k] if rowp[k] else ri[k] for k in range(N)]
            basis[leave] = j
            at[j] = 3
            at[bi] = leave_to
            # snap leaving variable exactly onto its bound
            xval[bi] = lo2[bi] if leave_to == 0 else hi2[bi]

    # ---- phase 1
    cost1 = [ZERO] * n + [ONE] * m
    st, _ = run(cost1)
    infeas = sum((xval[n + i] for i in range(m)), ZERO)

    def duals(cost):
        # y^T = cost_B^T B^-1 ; B^-1 column i = T[:, n+i] * sgn_i (because art col = sgn_i e_i)
        cb = [cost[basis[i]] for i in range(m)]
        y = []
        for i in range(m):
            v = ZERO
            for k in range(m):
                if cb[k] and T[k][n + i]:
                    v += cb[k] * T[k][n + i]
            y.append(v * sgn[i])
        return y

    if infeas > 0:
        return Result("infeasible", y=duals(cost1))
    # fix artificials at zero
    for i in range(m):
        hi2[n + i] = ZERO
    # ---- phase 2
    cost2 = list(c) + [ZERO] * m
    st, info = run(cost2)
    x = xval[:n]
    if st == "unbounded":
        j, direction = info
        ray = [ZERO] * n
        if j < n:
            ray[j] = F(direction)
        for i in range(m):
            if basis[i] < n and T[i][j]:
                ray[basis[i]] = -T[i][j] * direction
        return Result("unbounded", x=x, ray=ray)
    return Result("optimal", x=x, y=duals(cost2))


# ----------------------------------------------------------------------------
def certify(rows, b, lo, hi, cvec, sense, res):
    """Independent check of a Result against the original data."""
    n, m = len(lo), len(rows)
    sgn_c = -1 if sense == "max" else 1

    def feasible(x):
        for j in range(n):
            if lo[j] is not None and x[j] < lo[j]:
                return f"x[{j}] below lower bound"
            if hi[j] is not None and x[j] > hi[j]:
                return f"x[{j}] above upper bound"
        for i in range(m):
            if sum((v * x[j] for j, v in rows[i].items()), ZERO) != b[i]:
                return f"row {i} violated"
        return None

    if res.status == "optimal":
        why = feasible(res.x)
        if why:
            return False, why
        y = res.y
        # reduced costs for the minimisation form
        d = [sgn_c * cvec[j] for j in range(n)]
        for i in range(m):
            if y[i]:
                for j, v in rows[i].items():
                    d[j] -= y[i] * v
        for j in range(n):
            if d[j] > 0 and not (lo[j] is not None and res.x[j] == lo[j]):
                return False, f"d[{j}]>0 but x not at lower bound"
            if d[j] < 0 and not (hi[j] is not None and res.x[j] == hi[j]):
                return False, f"d[{j}]<0 but x not at upper bound"
        return True, ""
    if res.status == "infeasible":
        y = res.y
        r = [ZERO] * n
        for i in range(m):
            if y[i]:
                for j, v in rows[i].items():
                    r[j] += y[i] * v
        yb = sum((y[i] * b[i] for i in range(m)), ZERO)
        # phase-1 duals certify  min_{box} r.x > ... ; try both orientations
        for s in (1, -1):
            sup = ZERO
            ok = True
            for j in range(n):
                rj = s * r[j]
                if rj > 0:
                    if hi[j] is None:
                        ok = False
                        break
                    sup += rj * hi[j]
                elif rj < 0:
                    if lo[j] is None:
                        ok = False
                        break
                    sup += rj * lo[j]
            if ok and sup < s * yb:
                return True, ""
        return False, "Farkas certificate does not separate"
    if res.status == "unbounded":
        why = feasible(res.x)
        if why:
            return False, why
        z = res.ray
        for i in range(m):
            if sum((v * z[j] for j, v in rows[i].items()), ZERO) != 0:
                return False, "ray leaves the row space"
        for j in range(n):
            if z[j] > 0 and hi[j] is not None:
                return False, "ray hits an upper bound"
            if z[j] < 0 and lo[j] is not None:
                return False, "ray hits a lower bound"
        cz = sum((cvec[j] * z[j] for j in range(n)), ZERO)
        if sgn_c * cz >= 0:
            return False, "ray does not improve"
        return True, ""
    return False, "unknown status"
