"""Workload "suite": the repository's own tests executed with one property's monitor armed
(cv.suitemon through the pytest plugin cv.suiteplugin); one shard of a driver.

Only what the monitor records counts; the tests' own outcomes are reported as counters.
The shard is inconclusive (harness error) when the monitor was not evaluated at least
desc["min_evals"] times or when pytest could not run."""
import glob
import json
import os
import shutil
import subprocess
import sys
import tempfile
import time

REPO = "/repo"

# counters that are oracle evaluations, per property
EVALS = {
    "C07": ["C07.knockouts_checked"],
    "C20": ["C20.model_summaries_judged", "C20.metabolite_summaries_judged", "C20.reaction_summaries_judged"],
    "C02": ["C02.xref_checks_at_optimize", "C02.xref_checks_after_edit"],
    "C01": ["C01.core_checks_at_optimize"],
    "C03": ["C03.outermost_exits_checked"],
    "C04": ["C04.optimize_judged", "C04.slim_judged"],
    "C12": ["C12.copies_checked"],
    "C13": ["C13.analysis_calls_checked"],
    "C15": ["C15.mutations_checked"],
    "C16": ["C16.rows_checked"],
}

QUICK_PATHS = {
    "C07": ["tests/test_core", "tests/test_manipulation", "tests/test_flux_analysis/test_deletion.py"],
    "C20": ["tests/test_summary"],
    "C02": ["tests/test_core", "tests/test_manipulation", "tests/test_medium", "tests/test_flux_analysis/test_gapfilling.py"],
    "C01": ["tests/test_core/test_model.py", "tests/test_core/test_core_reaction.py", "tests/test_util", "tests/test_manipulation", "tests/test_medium"],
    "C03": ["tests/test_core", "tests/test_util", "tests/test_manipulation", "tests/test_medium"],
    "C04": ["tests/test_core/test_model.py", "tests/test_core/test_solution.py", "tests/test_flux_analysis/test_parsimonious.py", "tests/test_flux_analysis/test_deletion.py", "tests/test_medium"],
    "C12": ["tests/test_core", "tests/test_io/test_pickle.py", "tests/test_manipulation"],
    "C13": ["tests/test_flux_analysis", "tests/test_medium", "tests/test_summary"],
    "C15": ["tests/test_core", "tests/test_manipulation", "tests/test_io/test_json.py"],
    "C16": ["tests/test_sampling"],
}


def shard_desc(prop, tier):
    if tier == "quick":
        return {"kind": "suite", "paths": QUICK_PATHS[prop], "n": 4, "min_evals": 20}
    return {"kind": "suite", "paths": ["tests"], "n": 8, "min_evals": 30}


def run(prop, desc, acc):
    work = tempfile.mkdtemp(prefix=f"suite-{prop}-", dir=os.path.join(os.path.dirname(os.path.dirname(os.path.abspath(__file__))), ".work"))
    try:
        _run(prop, desc, acc, work)
    finally:
        shutil.rmtree(work, ignore_errors=True)


def _run(prop, desc, acc, work):
    logdir = os.path.join(work, "log")
    tmp = os.path.join(work, "tmp")
    os.makedirs(tmp)
    env = dict(os.environ, CV_SUITEMON=prop, CV_SUITEMON_LOG=logdir, TMPDIR=tmp)
    env.pop("CV_LINECOV", None)
    paths = [p for p in desc["paths"] if os.path.exists(os.path.join(REPO, p))]
    cmd = [sys.executable, "-m", "pytest", "-q", "-p", "no:cacheprovider", "-p", "cv.suiteplugin", "-n", str(desc.get("n", 4)), "--dist", "loadfile",
           "--timeout=900", "--deselect", "tests/test_io/test_web"] + paths  # fmt: skip
    ident = {"about_to_run": "repository test-suite under the " + prop + " monitor", "paths": paths}
    acc.journal(ident)
    out = open(os.path.join(work, "pytest.out"), "w")
    p = subprocess.Popen(cmd, cwd=REPO, env=env, stdout=out, stderr=subprocess.STDOUT)
    t0 = time.time()
    while p.poll() is None:
        time.sleep(1.0)
        if int(time.time() - t0) % 15 == 0:
            acc.journal(dict(ident, heartbeat=int(time.time() - t0)))
        if time.time() - t0 > desc.get("timeout", 2400):
            p.kill()
            acc.harness_error(f"suite run exceeded {desc.get('timeout', 2400)} s")
            return
    out.close()
    tail = open(os.path.join(work, "pytest.out")).read()[-600:]
    if p.returncode not in (0, 1):
        acc.harness_error(f"pytest could not run (rc={p.returncode}): {tail}")
        return
    want = os.path.abspath(os.environ.get("CV_COBRA_SRC") or "/repo/src")
    counters, tests, sessions = {}, {}, 0
    for f in glob.glob(os.path.join(logdir, "ev-*.jsonl")):
        last = None
        for line in open(f):
            try:
                r = json.loads(line)
            except Exception:
                continue
            k = r.get("k")
            if k == "viol":
                acc.violation(r["key"], f"[{r.get('test')}] {r['msg']}", {"workload": "repository test-suite", "test": r.get("test"), "extra": r.get("extra")})
            elif k == "counters":
                last = r["counters"]
            elif k == "session":
                sessions += 1
                if not os.path.abspath(r["cobra"]).startswith(want):
                    acc.harness_error(f"suite imported cobra from {r['cobra']}, expected {want}")
            elif k == "test":
                tests[r["id"]] = tests.get(r["id"], 0) + r["evals"]
            elif k == "oracle_error":
                acc.count("suite.oracle_errors")
                acc.add("suite_oracle_errors", f"{r.get('what')}: {r.get('err')}"[:200])
        for name, v in (last or {}).items():
            counters[name] = counters.get(name, 0) + v
    for name, v in counters.items():
        acc.count("suite." + name, v)
    evals = sum(counters.get(c, 0) for c in EVALS[prop])
    acc.ev(evals)
    acc.count("suite.monitor_evaluations", evals)
    acc.count("suite.tests_with_monitor_evaluations", len(tests))
    for tid in tests:
        acc.nontrivial("suite", prop, tid)
        acc.add("suite_test_files", tid.split("::")[0])
    if not sessions:
        acc.harness_error("suite run: the plugin never started: " + tail)
    elif evals < desc.get("min_evals", 1):
        acc.harness_error(f"suite run: the {prop} monitor was evaluated only {evals} times (< {desc.get('min_evals')}): " + tail)
