"""cobrapy runtime-monitoring framework (see /verif/DESIGN.md)."""
import os

VERIF_DIR = os.path.dirname(os.path.dirname(os.path.abspath(__file__)))
REPO_DIR = "/repo"
