"""Runner: ./check <Cxx> <quick|thorough> [--replay file]

Fans the property's shards out over sub-processes (one `subprocess` per shard with a
watchdog, so that a native crash in GLPK or a hang becomes a recorded event instead
of killing the check), merges what the monitors observed, classifies violations
against /verif/known_findings.jsonl, writes /verif/evidence/<id>.json and prints the
verdict lines.

exit 0  held on everything observed (known findings are printed, not failed)
exit 1  violated  (one `VIOLATION property=<id> replay=<path>` line per mechanism)
exit 2  inconclusive (no VIOLATION line)
"""
import importlib
import glob as glob_mod
import json
import os
import shutil
import subprocess
import sys
import tempfile
import time

from cv import VERIF_DIR
from cv.acc import Acc, h
from cv import findings as findings_mod

MAX_PAR = int(os.environ.get("CV_JOBS", "16"))
STALL_S = int(os.environ.get("CV_STALL_S", "90"))


def _cpu_seconds(pid):
    """user+system CPU seconds of a process (Linux /proc); 0.0 if unreadable."""
    try:
        with open(f"/proc/{pid}/stat") as f:
            parts = f.read().rsplit(")", 1)[1].split()
        return (int(parts[11]) + int(parts[12])) / os.sysconf("SC_CLK_TCK")
    except Exception:
        return 0.0


def _tree_cpu(pid):
    """CPU seconds of a process, its waited-for children and all live descendants."""
    total = 0.0
    todo, seen = [pid], set()
    while todo:
        q = todo.pop()
        if q in seen:
            continue
        seen.add(q)
        try:
            with open(f"/proc/{q}/stat") as f:
                parts = f.read().rsplit(")", 1)[1].split()
            total += sum(int(parts[k]) for k in (11, 12, 13, 14)) / os.sysconf("SC_CLK_TCK")
            for t in os.listdir(f"/proc/{q}/task"):
                with open(f"/proc/{q}/task/{t}/children") as f:
                    todo += [int(x) for x in f.read().split()]
        except Exception:
            pass
    return total


IDLE_WINDOW_S = 40.0  # a shard (with its descendants) that burns < IDLE_CPU_S in such a window without
IDLE_CPU_S = 0.25  # moving its journal is blocked (e.g. a pool whose worker died), not slowed down by load


def _kill_tree(p):
    import signal

    try:
        os.killpg(p.pid, signal.SIGKILL)
    except Exception:
        try:
            p.kill()
        except Exception:
            pass
    p.wait()


def _run_shards(prop, descs, watchdog_s, crash_ok=False):
    work = tempfile.mkdtemp(prefix=f"cv-{prop}-", dir=_workdir())
    procs = []  # (idx, Popen, outfile, t0)
    all_descs = list(descs)
    pending = list(enumerate(descs))
    results = {}
    failures = []
    crashes = []
    try:
        stall_state = {}
        while pending or procs:
            while pending and len(procs) < MAX_PAR:
                i, d = pending.pop(0)
                stall_state.pop(i, None)
                df = os.path.join(work, f"d{i}.json")
                of = os.path.join(work, f"o{i}.json")
                with open(df, "w") as f:
                    json.dump(d, f)
                lf = open(os.path.join(work, f"l{i}.log"), "w")
                p = subprocess.Popen(
                    [sys.executable, "-m", "cv.shard", prop, df, of],
                    stdout=lf,
                    stderr=subprocess.STDOUT,
                    cwd=VERIF_DIR,
                    start_new_session=True,  # own process group: pool workers die with the shard
                )
                procs.append((i, p, of, time.time(), lf))
            time.sleep(0.05)
            still = []
            for i, p, of, t0, lf in procs:
                rc = p.poll()
                if rc is None:
                    stalled = False
                    jp = of + ".journal"
                    if crash_ok and os.path.exists(jp):
                        # "no progress" is measured in CPU seconds the shard burnt since
                        # its journal last moved (a loaded machine must not look like a
                        # hang); a long wall-clock silence is the fallback for deadlocks
                        try:
                            mt = os.path.getmtime(jp)
                            cpu = _cpu_seconds(p.pid)
                            st = stall_state.get(i)
                            now = time.time()
                            if st is None or st[0] != mt:
                                stall_state[i] = (mt, cpu, now, now, _tree_cpu(p.pid))
                            else:
                                stalled = (cpu - st[1] > STALL_S) or (now - st[2] > 10 * STALL_S)
                                if not stalled and now - st[3] >= IDLE_WINDOW_S:
                                    tc = _tree_cpu(p.pid)
                                    if tc - st[4] < IDLE_CPU_S:
                                        stalled = True  # blocked: nobody in the shard's process tree is running
                                    else:
                                        stall_state[i] = st[:3] + (now, tc)
                        except OSError:
                            stalled = False
                    if stalled:
                        # no progress on one case for STALL_S seconds: ask for a stack
                        # dump, kill, record, resume
                        try:
                            import signal

                            p.send_signal(signal.SIGUSR1)
                            time.sleep(1.0)
                        except Exception:
                            pass
                        _kill_tree(p)
                        rc = "stalled"
                    elif time.time() - t0 > watchdog_s:
                        _kill_tree(p)
                        lf.close()
                        failures.append(f"shard {i} exceeded watchdog {watchdog_s}s")
                        if os.path.exists(of + ".ckpt"):
                            try:
                                with open(of + ".ckpt") as f:
                                    results[i] = json.load(f)
                            except Exception:
                                pass
                    else:
                        still.append((i, p, of, t0, lf))
                    if rc != "stalled":
                        continue
                else:
                    try:  # orphaned pool workers of a shard that ended or crashed
                        import signal

                        os.killpg(p.pid, signal.SIGKILL)
                    except Exception:
                        pass
                lf.close()
                if os.path.exists(of):
                    with open(of) as f:
                        results[i] = json.load(f)
                else:
                    tail = ""
                    try:
                        with open(lf.name) as f:
                            tail = f.read()
                        if rc == "stalled":
                            tail = tail[-2500:]
                        else:
                            tail = tail[:1500] + ("\n...\n" + tail[-500:] if len(tail) > 2000 else "")
                    except Exception:
                        pass
                    jr = None
                    if os.path.exists(of + ".journal"):
                        try:
                            with open(of + ".journal") as f:
                                jr = json.load(f)
                        except Exception:
                            jr = None
                    if os.path.exists(of + ".ckpt"):
                        try:
                            with open(of + ".ckpt") as f:
                                results[i] = json.load(f)
                        except Exception:
                            pass
                    d = all_descs[i]
                    if jr is not None and crash_ok:
                        crashes.append({"shard": i, "rc": rc, "journal": jr, "log": tail, "desc": d})
                        nxt = jr.get("case")
                        if isinstance(nxt, int) and "cases" in d and nxt + 1 < d.get("first", 0) + d["cases"] and len(crashes) < 40:
                            d2 = dict(d)
                            d2["cases"] = d.get("first", 0) + d["cases"] - (nxt + 1)
                            d2["first"] = nxt + 1
                            all_descs.append(d2)
                            pending.append((len(all_descs) - 1, d2))
                    else:
                        failures.append(f"shard {i} died rc={rc}: {tail}")
            procs = still
    finally:
        for i, p, of, t0, lf in procs:
            try:
                _kill_tree(p)
            except Exception:
                pass
        shutil.rmtree(work, ignore_errors=True)
    return results, failures, crashes


def _workdir():
    d = os.path.join(VERIF_DIR, ".work")
    os.makedirs(d, exist_ok=True)
    return d


def main(argv):
    if len(argv) < 2:
        print(__doc__)
        return 2
    prop = argv[1].upper()
    tier = argv[2] if len(argv) > 2 and not argv[2].startswith("--") else None
    tier = tier or os.environ.get("VERIF_TIER") or "quick"
    if tier not in ("quick", "thorough"):
        tier = "quick"
    seed = int(os.environ.get("VERIF_SEED", "0") or 0)
    mod = importlib.import_module("cv.props." + prop.lower())

    if "--replay" in argv:
        path = argv[argv.index("--replay") + 1]
        with open(path) as f:
            w = json.load(f)
        return _replay(prop, mod, w)

    t0 = time.time()
    import glob

    for old in glob.glob(os.path.join(VERIF_DIR, "replays", f"{prop}-{tier}-*.json")):
        try:
            os.remove(old)
        except OSError:
            pass
    descs = mod.plan(tier, seed)
    # directed probes: one committed, deterministic case per recorded known finding
    # (probes/<PROP>/*.json), run through the driver's own monitors in both tiers
    probe_files = sorted(glob_mod.glob(os.path.join(VERIF_DIR, "probes", prop, "*.json")))
    probes = []
    for pf in probe_files:
        try:
            with open(pf) as f:
                probes.append(json.load(f))
        except Exception:
            pass
    if probes and hasattr(mod, "run_probe"):
        descs = list(descs) + [{"kind": "probes", "probes": probes}]
    # the repository's own test-suite as one more workload, run with this property's monitor armed
    from cv import suiterun

    if prop in suiterun.EVALS and os.environ.get("CV_NO_SUITE") != "1":
        descs = [suiterun.shard_desc(prop, tier)] + list(descs)  # first: it is the longest shard
        if os.environ.get("CV_ONLY_SUITE") == "1":  # development aid (tools/suite_vs_seeds.py): what does this workload catch alone?
            descs = descs[:1]
    for i, d in enumerate(descs):
        d.setdefault("tier", tier)
        d.setdefault("seed", seed)
        d.setdefault("shard", i)
    watchdog = getattr(mod, "WATCHDOG_S", {"quick": 900, "thorough": 5400})[tier]
    crash_ok = bool(getattr(mod, "CRASH_IS_VIOLATION", False))
    results, failures, crashes = _run_shards(prop, descs, watchdog, crash_ok)

    acc = Acc()
    reached = set()
    for i in sorted(results):
        acc.merge_json(results[i])
        reached.update(results[i].get("reached", []))
    for c in crashes:
        # the interpreter was killed by native code while a public operation ran
        opname = str(c["journal"].get("about_to_run", "?"))
        frame = ""
        seen_thread = False
        for line in c["log"].splitlines():
            if line.startswith("Current thread"):
                seen_thread = True
            elif seen_thread and line.strip().startswith("File"):
                frame = line.strip().split(" in ")[-1]
                break
        if c["rc"] == "stalled":
            # last periodic stack dump tells where it was stuck
            frame = ""
            for blk in c["log"].split("Current thread")[-1:]:
                for line in blk.splitlines():
                    if line.strip().startswith("File"):
                        frame = line.strip().split(" in ")[-1]
                        break
            ffile = ""
            for blk in c["log"].split("Current thread")[-1:]:
                for line in blk.splitlines():
                    if line.strip().startswith("File"):
                        ffile = line.strip().split('"')[1] if '"' in line else ""
                        break
            if frame in ("glp_simplex", "glp_intopt", "glp_exact", "glp_interior"):
                acc.count("solver_algorithm_stalls_ignored")
                acc.add("solver_algorithm_stall_frames", frame)
                continue
            if "/cobra/" not in ffile.replace("\\", "/"):
                # stuck outside cobrapy's own code (harness, standard library, solver
                # wrapper): says nothing about the property; counted, shard resumed
                acc.count("stalls_outside_cobra_ignored")
                acc.add("stall_frames_outside_cobra", f"{os.path.basename(ffile)}:{frame}")
                continue
            acc.violation(
                f"{prop}/stall/{opname}",
                f"no progress for {STALL_S} CPU seconds while running {opname} (stuck in {frame or 'unknown frame'})",
                {"journal": c["journal"], "log": c["log"][-3000:], "desc": c["desc"]},
            )
            acc.count("stalls")
            continue
        if frame in ("glp_simplex", "glp_intopt", "glp_exact", "glp_interior"):
            # GLPK's own algorithm aborted on the problem it was given (an assertion in
            # its LU/simplex code).  The monitors compared that problem with the model
            # right before; the abort is a solver defect, not an observation about the
            # property.  Counted as evidence, the shard was resumed behind the case.
            acc.count("solver_algorithm_aborts_ignored")
            acc.add("solver_algorithm_abort_messages", next((l.strip()[:120] for l in c["log"].splitlines() if "Assertion" in l or "Error detected" in l), "?"))
            continue
        first = ""
        for line in c["log"].splitlines():
            if line.strip() and not line.startswith(("Fatal", "Current", "  File", "Extension")):
                first = line.strip()[:160]
                break
        acc.violation(
            f"{prop}/native-crash/{opname}",
            f"the process was killed (rc={c['rc']}) inside native code while running {opname}: {first}",
            {"journal": c["journal"], "log": c["log"][:3000], "desc": c["desc"]},
        )
        acc.count("native_crashes")

    # ---- classify violations ------------------------------------------------
    known = findings_mod.load(prop)
    fresh, known_seen = [], []
    for key, v in sorted(acc.violations.items()):
        k = known.get(key)
        if k is not None and k.get("status") == "known":
            known_seen.append((key, k, v))
        else:
            fresh.append((key, v))

    # ---- inconclusive conditions -------------------------------------------
    inconclusive = []
    if failures:
        inconclusive.extend(failures)
    if acc.harness_errors:
        inconclusive.extend("harness: " + e[-600:] for e in acc.harness_errors)
    mins = mod.minimums(tier) if hasattr(mod, "minimums") else {}
    only_suite = os.environ.get("CV_ONLY_SUITE") == "1" and prop in suiterun.EVALS
    if only_suite:  # development aid: the driver's own workload did not run, its minimum counters do not apply
        mins = {}
    if acc.evaluations < mins.get("evaluations", 1):
        inconclusive.append(
            f"only {acc.evaluations} evaluations (< {mins.get('evaluations', 1)})"
        )
    if len(acc.sigs) < mins.get("distinct_nontrivial", 2):
        inconclusive.append(
            f"only {len(acc.sigs)} distinct non-trivial cases "
            f"(< {mins.get('distinct_nontrivial', 2)})"
        )
    for cname, cmin in mins.get("counters", {}).items():
        if acc.counters.get(cname, 0) < cmin:
            inconclusive.append(
                f"monitor counter {cname}={acc.counters.get(cname, 0)} (< {cmin})"
            )
    for sname, smin in mins.get("sets", {}).items():
        if len(acc.sets.get(sname, ())) < smin:
            inconclusive.append(
                f"observed set {sname} has {len(acc.sets.get(sname, ()))} (< {smin})"
            )
    missing_reach = [
        r for r in getattr(mod, "REACH", []) if not any(x.endswith(r) for x in reached)
    ]
    if missing_reach and not only_suite:
        inconclusive.append("anchored mechanisms never reached: " + ", ".join(missing_reach))

    # ---- evidence ------------------------------------------------------------
    wall = time.time() - t0
    observed = {
        "counters": dict(sorted(acc.counters.items())),
        "sets": {
            k: {"n": len(v), "examples": sorted(v)[:40]}
            for k, v in sorted(acc.sets.items())
        },
        "shards": len(descs),
        "shards_completed": len(results),
        "cobra_functions_reached": len(reached),
        "anchored_reached": [
            r for r in getattr(mod, "REACH", []) if any(x.endswith(r) for x in reached)
        ],
        "known_findings_seen": {k: v["count"] for k, _, v in known_seen},
        "fresh_violation_keys": {k: v["count"] for k, v in fresh},
        "inconclusive_reasons": inconclusive,
    }
    samples = acc.samples[:5] or [{"note": "no sample recorded"}]
    evidence = {
        "property_id": prop,
        "tier": tier,
        "seed": seed,
        "level": mod.LEVEL,
        "coverage": {
            "evaluations": acc.evaluations,
            "distinct_nontrivial": len(acc.sigs),
            "rule": mod.RULE,
            "samples": samples,
            "observed": observed,
        },
        "assumptions": list(getattr(mod, "ASSUMPTIONS", [])),
        "wall_s": round(wall, 2),
        "violations": sum(v["count"] for _, v in fresh),
    }
    if getattr(mod, "EXHAUSTIVE", None):
        ex = mod.EXHAUSTIVE(tier) if callable(mod.EXHAUSTIVE) else mod.EXHAUSTIVE
        if ex:
            evidence["coverage"]["exhaustive_part"] = ex
    _write_evidence(prop, evidence)

    # ---- verdict lines -----------------------------------------------------
    seen_keys = {key for key, _k, _v in known_seen}
    for pr in probes:
        if pr.get("expect_key") and pr["expect_key"] not in seen_keys and pr["expect_key"] not in {k for k, _ in fresh}:
            print(f"NOTE: probe {pr.get('name')} did not reproduce the recorded finding {pr['expect_key']} (the finding may be gone; known_findings.txt should be revisited)")
    for key, k, v in known_seen:
        print(f"KNOWN-FINDING: property={prop} {k.get('what', key)} [key={key}, seen {v['count']}x]")
        if os.environ.get("CV_DUMP_KNOWN"):
            # development aid: keep a witness of a recorded finding (to build probes from)
            dd = os.path.join(_workdir(), "known-witness")
            os.makedirs(dd, exist_ok=True)
            with open(os.path.join(dd, f"{prop}-{h(key)}.json"), "w") as f:
                json.dump({"key": key, "what": v["what"], "witnesses": v["witnesses"]}, f, indent=1, default=repr)
    rc = 0
    if fresh:
        os.makedirs(os.path.join(VERIF_DIR, "replays"), exist_ok=True)
        for key, v in fresh:
            path = os.path.join(VERIF_DIR, "replays", f"{prop}-{tier}-{h(key)}.json")
            with open(path, "w") as f:
                json.dump(
                    {
                        "property": prop,
                        "key": key,
                        "what": v["what"],
                        "count": v["count"],
                        "seed": seed,
                        "tier": tier,
                        "witness": v["witnesses"][0] if v["witnesses"] else None,
                        "more_witnesses": v["witnesses"][1:],
                    },
                    f,
                    indent=1,
                    default=repr,
                )
            print(f"VIOLATION property={prop} replay={path}")
            print(f"  key={key} count={v['count']} what={v['what'][:300]}")
        rc = 1
    elif inconclusive:
        for r in inconclusive[:6]:
            print(f"INCONCLUSIVE property={prop} reason={r[:500]}")
        rc = 2
    print(
        f"{prop} {tier} seed={seed}: evaluations={acc.evaluations} "
        f"distinct_nontrivial={len(acc.sigs)} shards={len(results)}/{len(descs)} "
        f"known={len(known_seen)} fresh={len(fresh)} wall={wall:.1f}s -> "
        + {0: "HELD", 1: "VIOLATED", 2: "INCONCLUSIVE"}[rc]
    )
    return rc


def _write_evidence(prop, evidence):
    d = os.path.join(VERIF_DIR, "evidence")
    if os.environ.get("CV_COBRA_SRC"):
        # a run against a scratch copy (mutants, seeded changes): what it observed is not evidence about /repo
        d = os.path.join(VERIF_DIR, ".work", "evidence-scratch")
    os.makedirs(d, exist_ok=True)
    txt = json.dumps(evidence, indent=1, default=repr, sort_keys=False)
    try:
        import jsonschema

        with open("/root/.vp/EVIDENCE.schema.json") as f:
            schema = json.load(f)
        jsonschema.validate(json.loads(txt), schema)
    except ImportError:
        pass
    except FileNotFoundError:
        pass
    except Exception as e:  # invalid evidence is reported, not hidden
        print(f"EVIDENCE-INVALID property={prop}: {str(e)[:300]}")
    with open(os.path.join(d, f"{prop}.json"), "w") as f:
        f.write(txt + "\n")


def _replay(prop, mod, w):
    from cv.acc import Acc

    acc = Acc()
    witness = w.get("witness", w)
    if not hasattr(mod, "replay"):
        print("no replay support for", prop)
        return 2
    mod.replay(witness, acc)
    if acc.violations:
        for k, v in acc.violations.items():
            print(f"REPLAY reproduced key={k}: {v['what']}")
            print(json.dumps(v["witnesses"][0], indent=1, default=repr)[:4000])
        return 1
    print("REPLAY: no violation reproduced")
    return 0


if __name__ == "__main__":
    sys.exit(main(sys.argv))
