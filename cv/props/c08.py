"""C08 - a gene rule is a Boolean function and its text form is faithful.

Monitor shape: independent oracle.  The generator keeps the and/or tree, so the truth
table and the gene set are known without parsing.  For every generated rule and every
spelling the real GPR is judged on **every** subset of its genes (<= 7 genes), then
again after each transformation (text round trip, str, copy, deepcopy, pickling a
Reaction carrying it, symbolic round trip), on ==-pairs, and on remove_genes.
"""
import copy
import itertools
import pickle
import warnings

from cv import gen
from cv.acc import h

PROPERTY = "C08"
LEVEL = "exploration"
RULE = (
    "case = one (rule tree, spelling, transformation).  Trees: random and/or trees (depth<=4, "
    "arity<=4, shared genes) over identifiers with letters, digits, leading digits, Python "
    "keywords, dots, dashes, colons, slashes, quotes and equals signs; plus every tree with "
    "<=4 leaves over a 3-gene awkward alphabet (bounded exhaustive).  Each case is judged on "
    "all 2^n knock-out subsets.  Non-trivial when the rule has >=2 genes and >=1 operator; "
    "distinct by (canonical tree, spelling, transformation)."
    " Rule objects left behind by remove_genes / rename_genes / a new rule text are judged like parsed rules (text, symbolic and copy forms; compared or symbolised before the edit in half of the cases); == pairs include the same genes in permuted roles."  # third-session additions
)
ASSUMPTIONS = [
    "identifier alphabet restricted to the character classes the property enumerates (no blanks, parentheses, non-ASCII, backslashes, cobrapy's own escape markers)",
    "only parsable rules are generated; SyntaxWarnings for upper-case operators are expected",
]
REACH = [
    "core/gene.py:GPR.from_string",
    "core/gene.py:GPR._eval_gpr",
    "core/gene.py:GPR._ast2str",
    "core/gene.py:GPR.as_symbolic",
    "core/gene.py:GPR.from_symbolic",
    "core/gene.py:GPR.__eq__",
    "manipulation/delete.py:_GeneRemover.visit_BoolOp",
    "core/reaction.py:Reaction.__setstate__",
]


def minimums(tier):
    return {
        "evaluations": 5000,
        "distinct_nontrivial": 1500,
        "counters": {"truth_table_rows_checked": 50000, "remove_genes_reactions_checked": 300, "eq_pairs_checked": 500},
        "sets": {"transformations": 7, "identifier_classes": 8},
    }


def plan(tier, seed):
    n = 14 if tier == "quick" else 56
    per = 260 if tier == "quick" else 1500
    out = [{"kind": "random", "cases": per, "base": seed * 1000003 + k} for k in range(n)]
    out += [{"kind": "exhaustive", "part": k, "nparts": 2 if tier == "quick" else 8, "leaves": 3 if tier == "quick" else 4} for k in range(2 if tier == "quick" else 8)]
    return out


def EXHAUSTIVE(tier):
    return "all and/or trees with <= %d leaves over the alphabet ['1', 'if', 'a-b.c'] x 2 spellings are enumerated completely" % (3 if tier == "quick" else 4)


def id_class(g):
    cs = []
    if g[0].isdigit():
        cs.append("leading-digit")
    import keyword

    if g in keyword.kwlist or g in ("True", "False", "None"):
        cs.append("keyword")
    for ch, nm in ((".", "dot"), ("-", "dash"), (":", "colon"), ("/", "slash"), ("'", "squote"), ('"', "dquote"), ("=", "equals")):
        if ch in g:
            cs.append(nm)
    return cs or ["plain"]


def all_subsets(genes):
    genes = sorted(genes)
    for mask in range(1 << len(genes)):
        yield {g for i, g in enumerate(genes) if mask >> i & 1}


def canon(tree):
    if tree is None or isinstance(tree, str):
        return tree
    return (tree[0], tuple(canon(k) for k in tree[1]))


def judge(acc, gpr, tree, genes, what, ctx):
    """gpr must realise tree's truth table and gene set."""
    acc.ev()
    acc.add("transformations", what)
    try:
        got_genes = set(gpr.genes)
    except Exception as e:
        acc.violation(f"C08/{what}/genes-raised/{type(e).__name__}", f"{what}: .genes raised {e}", dict(ctx, what=what))
        return False
    if got_genes != set(genes):
        acc.violation(
            f"C08/{what}/gene-set",
            f"after {what} the rule reports genes {sorted(got_genes)} instead of {sorted(genes)}",
            dict(ctx, what=what, got=sorted(got_genes), expected=sorted(genes)),
        )
        return False
    for K in all_subsets(genes):
        acc.count("truth_table_rows_checked")
        try:
            v = gpr.eval(K)
        except Exception as e:
            acc.violation(f"C08/{what}/eval-raised/{type(e).__name__}", f"{what}: eval raised {e}", dict(ctx, what=what, knockouts=sorted(K)))
            return False
        if bool(v) != gen.gpr_eval(tree, K):
            acc.violation(
                f"C08/{what}/truth-table",
                f"after {what} the rule evaluates to {v} with {sorted(K)} absent, the expression gives {gen.gpr_eval(tree, K)}",
                dict(ctx, what=what, knockouts=sorted(K), got=bool(v)),
            )
            return False
    return True


def check_rule(acc, tree, text, style_name, ctx):
    import cobra
    from cobra.core.gene import GPR

    genes = gen.gpr_genes(tree)
    ctx = dict(ctx, text=text)
    for g in genes:
        for c in id_class(g):
            acc.add("identifier_classes", c)
    with warnings.catch_warnings():
        warnings.simplefilter("ignore")
        try:
            g0 = GPR.from_string(text)
        except Exception as e:
            acc.ev()
            acc.violation(f"C08/parse/raised/{type(e).__name__}", f"from_string raised {e}", ctx)
            return
    nontrivial = len(genes) >= 2 and not isinstance(tree, str)
    if nontrivial:
        acc.nontrivial(canon(tree), style_name, "parse")
    if not judge(acc, g0, tree, genes, "parse", ctx):
        return
    # transformations
    trans = {}
    try:
        trans["to_string"] = GPR.from_string(g0.to_string())
        trans["str"] = GPR.from_string(str(g0))
        trans["copy"] = g0.copy()
        trans["copy.copy"] = copy.copy(g0)
        trans["deepcopy"] = copy.deepcopy(g0)
        r = cobra.Reaction("R")
        r.gpr = g0
        r2 = pickle.loads(pickle.dumps(r))
        trans["pickle-reaction"] = r2.gpr
        r3 = cobra.Reaction("R3")
        r3.gene_reaction_rule = text
        trans["reaction-rule-text"] = GPR.from_string(r3.gene_reaction_rule)
        trans["reaction.copy"] = r3.copy().gpr
        trans["symbolic"] = GPR.from_symbolic(g0.as_symbolic())
    except Exception as e:
        acc.ev()
        acc.violation(f"C08/transform/raised/{type(e).__name__}", f"a transformation of a parsed rule raised {type(e).__name__}: {e}", dict(ctx, done=sorted(trans)))
        return
    for what, g1 in trans.items():
        if nontrivial:
            acc.nontrivial(canon(tree), style_name, what)
        if not judge(acc, g1, tree, genes, what, ctx):
            continue
        acc.ev()
        try:
            eq = g1 == g0
        except Exception as e:
            acc.violation(f"C08/{what}/eq-raised/{type(e).__name__}", f"== raised {e}", dict(ctx, what=what))
            continue
        if not eq:
            acc.violation(f"C08/{what}/not-equal-to-original", f"the rule after {what} does not compare equal to the original", dict(ctx, what=what, after=g1.to_string()))


def variants(rng, tree):
    """(variant, must_be_equivalent) pairs: commuted/reassociated/absorbed and near misses."""
    out = []
    if tree is None or isinstance(tree, str):
        return out
    op, kids = tree
    k2 = list(kids)
    rng.shuffle(k2)
    out.append(((op, k2), True))  # commuted
    if len(kids) >= 3:
        out.append(((op, [(op, kids[:2])] + kids[2:]), True))  # reassociated
    out.append(((op, kids + [kids[0]]), True))  # idempotent
    other = "or" if op == "and" else "and"
    out.append(((other, kids), None))  # near miss: usually different
    out.append(((op, kids[:-1]) if len(kids) > 2 else kids[0], None))  # dropped operand
    g = sorted(gen.gpr_genes(tree))
    out.append(((op, kids + [(other, [g[0], kids[0]])]), None))
    if len(g) >= 2:
        # same shape, same genes, the genes in permuted roles: a and (b or c) vs c and (a or b)
        perm = g[1:] + g[:1] if rng.random() < 0.5 else rng.sample(g, len(g))
        out.append((rename_tree(tree, dict(zip(g, perm))), None))
    return out


def rename_tree(tree, mapping):
    if tree is None:
        return None
    if isinstance(tree, str):
        return mapping.get(tree, tree)
    return (tree[0], [rename_tree(k, mapping) for k in tree[1]])


def check_pairs(acc, rng, tree, ctx):
    from cobra.core.gene import GPR

    genes = gen.gpr_genes(tree)
    with warnings.catch_warnings():
        warnings.simplefilter("ignore")
        a = GPR.from_string(gen.gpr_text(tree))
        for var, must in variants(rng, tree):
            vg = gen.gpr_genes(var)
            allg = sorted(genes | vg)
            if len(allg) > 7:
                continue
            b = GPR.from_string(gen.gpr_text(var))
            acc.ev()
            acc.count("eq_pairs_checked")
            try:
                eq = a == b
            except Exception as e:
                acc.violation(f"C08/eq/raised/{type(e).__name__}", f"== raised {e}", dict(ctx, a=gen.gpr_text(tree), b=gen.gpr_text(var)))
                continue
            same = all(gen.gpr_eval(tree, K) == gen.gpr_eval(var, K) for K in all_subsets(allg))
            if eq and not same:
                acc.violation("C08/eq/equal-but-not-equivalent", "two rules compare equal but have different truth tables", dict(ctx, a=gen.gpr_text(tree), b=gen.gpr_text(var)))
            if eq:
                acc.count("eq_pairs_equal")
            if same:
                acc.count("eq_pairs_equivalent")


def check_remove_genes(acc, rng, ctx, gene_pool):
    """remove_genes leaves every still-catalysable reaction with a rule equivalent to the
    old rule with those genes absent."""
    import cobra
    from cobra.manipulation import remove_genes

    m = cobra.Model("rg")
    a = cobra.Metabolite("a_c", compartment="c")
    trees = {}
    rs = []
    for i in range(rng.randint(2, 6)):
        r = cobra.Reaction(f"R{i}")
        r.add_metabolites({a: -1})
        t = gen.gpr_tree(rng, gene_pool, depth=rng.randint(0, 3), arity=3) if rng.random() < 0.9 else None
        trees[r.id] = t
        st = rng.choice(gen.STYLES)
        with warnings.catch_warnings():
            warnings.simplefilter("ignore")
            r.gene_reaction_rule = gen.gpr_text(t, rng, st)
        rs.append(r)
    m.add_reactions(rs)
    present = sorted(g.id for g in m.genes)
    if not present:
        return
    removed = set(rng.sample(present, rng.randint(1, min(3, len(present)))))
    rr = rng.random() < 0.5
    form = rng.choice(["ids", "objects", "generator of ids", "iterator of objects", "tuple of ids", "set of objects"])
    texts = {r.id: r.gene_reaction_rule for r in m.reactions}
    ctx = dict(ctx, rules=texts, removed=sorted(removed), remove_reactions=rr, argument_form=form)
    acc.add("remove_genes_argument_forms", form)
    touched = rng.random() < 0.5
    if touched:
        touch_rules(m)
        acc.count("rules_compared_or_symbolised_before_the_edit")
    objs = [m.genes.get_by_id(g) for g in sorted(removed)]
    arg = {
        "ids": sorted(removed),
        "objects": objs,
        "generator of ids": (g for g in sorted(removed)),
        "iterator of objects": iter(objs),
        "tuple of ids": tuple(sorted(removed)),
        "set of objects": set(objs),
    }[form]
    try:
        with warnings.catch_warnings():
            warnings.simplefilter("ignore")
            remove_genes(m, arg, remove_reactions=rr)
    except Exception as e:
        acc.ev()
        acc.violation(f"C08/remove_genes/raised/{type(e).__name__}", f"remove_genes raised {type(e).__name__}: {e}", ctx)
        return
    for rid, t in trees.items():
        still = gen.gpr_eval(t, removed)
        acc.ev()
        acc.count("remove_genes_reactions_checked")
        if rid not in m.reactions:
            if still or not rr:
                acc.violation("C08/remove_genes/reaction-removed-although-catalysable", f"reaction {rid} was removed although its rule is still satisfiable / remove_reactions was off", dict(ctx, reaction=rid))
            continue
        if not still:
            if rr and t is not None:
                acc.violation("C08/remove_genes/reaction-kept-although-rule-false", f"reaction {rid} kept although its rule is false without the genes", dict(ctx, reaction=rid))
            continue  # the property speaks about reactions that can still be catalysed
        r = m.reactions.get_by_id(rid)
        rest = sorted(gen.gpr_genes(t) - removed)
        acc.nontrivial("remove_genes", canon(t), tuple(sorted(removed)))
        if len(rest) > 7:
            continue
        bad = None
        for K in all_subsets(rest):
            acc.count("truth_table_rows_checked")
            if bool(r.gpr.eval(K)) != gen.gpr_eval(t, K | removed):
                bad = K
                break
        if bad is not None:
            acc.violation(
                "C08/remove_genes/rule-not-equivalent",
                f"after remove_genes the rule of {rid} is {r.gene_reaction_rule!r}, not equivalent to the old rule with the genes absent",
                dict(ctx, reaction=rid, new_rule=r.gene_reaction_rule, knockouts=sorted(bad)),
            )
            continue
        leftover = set(r.gpr.genes) & removed
        if leftover:
            acc.violation("C08/remove_genes/removed-gene-still-in-rule", f"rule of {rid} still names {sorted(leftover)}", dict(ctx, reaction=rid, new_rule=r.gene_reaction_rule))
            continue
        rule_object_after_edit(acc, r, lambda K, t=t: gen.gpr_eval(t, set(K) | removed), set(rest) if not redundant_free(t, removed) else None, "remove_genes", dict(ctx, reaction=rid, touched_before=touched))
    for g in removed:
        if g in m.genes:
            acc.violation("C08/remove_genes/gene-still-in-model", f"gene {g} still in model.genes", ctx)


def redundant_free(t, removed):
    """The gene set of the simplified rule is not pinned down by the property (a rule equivalent to the
    old one with the genes absent may or may not keep genes that have become redundant)."""
    return True


def touch_rules(m):
    """What users do with rules before editing a model: compare and symbolise them (anything cached
    by that must not survive the edit)."""
    for r in m.reactions:
        try:
            r.gpr == r.gpr.copy()
            r.gpr.as_symbolic()
        except Exception:
            pass


def rule_object_after_edit(acc, r, truth, genes, what, ctx):
    """The rule object a model edit leaves behind is a rule like any other: its text form, its symbolic
    form and its copy have the truth table `truth` (and gene set `genes` when given) and compare equal to it."""
    from cobra.core.gene import GPR

    g0 = r.gpr
    with warnings.catch_warnings():
        warnings.simplefilter("ignore")
        try:
            trans = {"to_string": GPR.from_string(g0.to_string()), "symbolic": GPR.from_symbolic(g0.as_symbolic()), "copy": g0.copy()}
        except Exception as e:
            acc.ev()
            acc.violation(f"C08/{what}/after-edit/transform-raised/{type(e).__name__}", f"transforming the rule left by {what} raised {e}", ctx)
            return
        names = sorted(set(g0.genes) | (genes or set()))
        if len(names) > 7:
            return
        for how, g1 in trans.items():
            acc.ev()
            acc.count("rule_objects_checked_after_edit")
            if genes is not None and set(g1.genes) != genes:
                acc.violation(f"C08/{what}/after-edit/{how}/gene-set", f"after {what}, {how} of the rule {g0.to_string()!r} reports genes {sorted(g1.genes)}, expected {sorted(genes)}", dict(ctx, how=how))
                break
            bad = next((K for K in all_subsets(names) if bool(g1.eval(K)) != bool(truth(K))), None)
            if bad is not None:
                acc.violation(f"C08/{what}/after-edit/{how}/truth-table", f"after {what}, {how} of the rule {g0.to_string()!r} gives {g1.to_string()!r}, which differs with {sorted(bad)} absent", dict(ctx, how=how, knockouts=sorted(bad)))
                break
            try:
                eq = g1 == g0
            except Exception as e:
                acc.violation(f"C08/{what}/after-edit/{how}/eq-raised/{type(e).__name__}", f"== raised {e}", dict(ctx, how=how))
                break
            if not eq:
                acc.violation(f"C08/{what}/after-edit/{how}/not-equal-to-original", f"after {what}, {how} of the rule {g0.to_string()!r} does not compare equal to it", dict(ctx, how=how))
                break


def check_rename_genes(acc, rng, ctx, gene_pool):
    """rename_genes / a new rule text: the rule object afterwards is the renamed / new Boolean function in
    every form, and an old copy compares equal to it only if it is equivalent."""
    import cobra
    from cobra.manipulation import rename_genes

    m = cobra.Model("rn")
    a = cobra.Metabolite("a_c", compartment="c")
    trees = {}
    rs = []
    for i in range(rng.randint(1, 4)):
        r = cobra.Reaction(f"R{i}")
        r.add_metabolites({a: -1})
        t = gen.gpr_tree(rng, gene_pool, depth=rng.randint(0, 3), arity=3)
        trees[r.id] = t
        with warnings.catch_warnings():
            warnings.simplefilter("ignore")
            r.gene_reaction_rule = gen.gpr_text(t, rng, rng.choice(gen.STYLES))
        rs.append(r)
    m.add_reactions(rs)
    present = sorted(g.id for g in m.genes)
    fresh = [g for g in gen.PLAIN_IDS + gen.AWKWARD_IDS if g not in present and g not in gene_pool]
    if not present or not fresh:
        return
    touched = rng.random() < 0.6
    if touched:
        touch_rules(m)
        acc.count("rules_compared_or_symbolised_before_the_edit")
    olds = {r.id: r.gpr.copy() for r in m.reactions}
    kind = rng.choice(["rename_genes", "rename_genes", "new rule text"])
    ctx = dict(ctx, rules={r.id: r.gene_reaction_rule for r in m.reactions}, edit=kind, touched_before=touched)
    if kind == "rename_genes":
        k = rng.randint(1, min(2, len(present)))
        mapping = dict(zip(rng.sample(present, k), rng.sample(fresh, k)))
        ctx["mapping"] = mapping
        try:
            with warnings.catch_warnings():
                warnings.simplefilter("ignore")
                rename_genes(m, dict(mapping))
        except Exception as e:
            acc.ev()
            acc.violation(f"C08/rename_genes/raised/{type(e).__name__}", f"rename_genes raised {e}", ctx)
            return
        new_trees = {rid: rename_tree(t, mapping) for rid, t in trees.items()}
    else:
        new_trees = {}
        for r in m.reactions:
            t2 = gen.gpr_tree(rng, gene_pool, depth=rng.randint(0, 3), arity=3)
            new_trees[r.id] = t2
            with warnings.catch_warnings():
                warnings.simplefilter("ignore")
                r.gene_reaction_rule = gen.gpr_text(t2, rng, rng.choice(gen.STYLES))
    for r in m.reactions:
        t2 = new_trees[r.id]
        genes = gen.gpr_genes(t2)
        if len(genes | gen.gpr_genes(trees[r.id])) > 7:
            continue
        acc.nontrivial(kind, canon(t2), touched)
        c2 = dict(ctx, reaction=r.id)
        if not judge(acc, r.gpr, t2, genes, kind, c2):
            continue
        rule_object_after_edit(acc, r, lambda K, t2=t2: gen.gpr_eval(t2, set(K)), genes, kind, c2)
        acc.ev()
        try:
            eq = olds[r.id] == r.gpr
        except Exception as e:
            acc.violation(f"C08/{kind}/eq-raised/{type(e).__name__}", f"== raised {e}", c2)
            continue
        allg = sorted(genes | gen.gpr_genes(trees[r.id]))
        same = all(gen.gpr_eval(trees[r.id], K) == gen.gpr_eval(t2, K) for K in all_subsets(allg))
        if eq and not same:
            acc.violation("C08/eq/equal-but-not-equivalent", f"the rule before {kind} compares equal to the rule after it, but the truth tables differ", dict(c2, after=r.gene_reaction_rule))


def run_random(desc, acc):
    for case in range(desc["cases"]):
        rng = gen.rng_for("C08", desc["base"], case)
        n = rng.randint(1, 6)
        pool = rng.sample(gen.AWKWARD_IDS + gen.PLAIN_IDS, n)
        tree = gen.gpr_tree(rng, pool, depth=rng.randint(0, 4), arity=4)
        if len(gen.gpr_genes(tree)) > 7:
            continue
        ctx = {"base": desc["base"], "case": case, "tree": canon(tree)}
        for si, st in enumerate(rng.sample(gen.STYLES, 2)):
            text = gen.gpr_text(tree, rng, st)
            check_rule(acc, tree, text, f"style{gen.STYLES.index(st)}", ctx)
        check_pairs(acc, rng, tree, ctx)
        if case % 3 == 0:
            check_remove_genes(acc, rng, ctx, pool + [rng.choice(gen.PLAIN_IDS)])
        if case % 3 == 1:
            check_rename_genes(acc, rng, ctx, pool + [rng.choice(gen.PLAIN_IDS)])
        if case < 2:
            acc.sample({"tree": canon(tree), "text": gen.gpr_text(tree, rng, gen.STYLES[3])})


def trees_with_leaves(n, alphabet):
    """All and/or trees with exactly n leaves (children ordered, arity>=2)."""
    if n == 1:
        for g in alphabet:
            yield g
        return
    for op in ("and", "or"):
        for parts in compositions(n):
            if len(parts) < 2:
                continue
            for kids in itertools.product(*[list(trees_with_leaves(p, alphabet)) for p in parts]):
                yield (op, list(kids))


def compositions(n):
    if n == 0:
        yield []
        return
    for first in range(1, n + 1):
        for rest in compositions(n - first):
            yield [first] + rest


def run_exhaustive(desc, acc):
    alphabet = ["1", "if", "a-b.c"]
    k = 0
    for leaves in range(1, desc["leaves"] + 1):
        for tree in trees_with_leaves(leaves, alphabet):
            k += 1
            if k % desc["nparts"] != desc["part"]:
                continue
            ctx = {"exhaustive": True, "tree": canon(tree)}
            for si in (0, 2):
                check_rule(acc, tree, gen.gpr_text(tree, None, gen.STYLES[si]), f"style{si}", ctx)
            acc.count("exhaustive_trees")


def run_shard(desc, acc):
    if desc["kind"] == "random":
        run_random(desc, acc)
    else:
        run_exhaustive(desc, acc)


def replay(w, acc):
    if w.get("exhaustive"):
        tree = gen._tuplify(_listify(w["tree"]))
        for si in (0, 2):
            check_rule(acc, tree, gen.gpr_text(tree, None, gen.STYLES[si]), f"style{si}", {"exhaustive": True, "tree": w["tree"]})
        return
    run_random({"base": w["base"], "cases": w["case"] + 1}, acc)


def _listify(t):
    if t is None or isinstance(t, str):
        return t
    return [t[0], [_listify(k) for k in t[1]]]
