"""C02 - model edits do exactly what they document; cross references stay consistent.

Monitor shape: reference model in lock-step (S5, cv/refmodel.py).  After every step of a
seeded history the abstraction of the real model must equal the reference state the
documentation implies; everything outside the operation's documented frame must be
unchanged (whole-content comparison of all untouched objects); and all cross-reference
invariants must hold (S1).  Operations that are documented to fail must fail; after any
failure only the invariants are demanded (no document promises atomicity) and the
reference is re-synchronised.
"""
import os

from cv import gen, hist, observe, ops, refmodel
from cv.acc import h

VERBOSE = bool(os.environ.get("CV_VERBOSE"))
PROPERTY = "C02"
LEVEL = "exploration"
RULE = (
    "case = one checked step of a seeded history (1-25 editing operations with every argument "
    "shape of the catalogue: objects or ids, copies of model objects, foreign objects, combine / "
    "replace, destructive or not, remove_orphans or not, single or list, failing forms, nested "
    "contexts) on an empty, generated, mini or textbook model.  Non-trivial when the reference "
    "state changed or the operation raised; distinct by (operation + argument shape, abstract-"
    "state hash)."
    " An exception raised by an operation that has no failure mode for these argument shapes (18 operations) is a violation. Second workload: the repository's tests with the cross-reference invariant evaluated at every optimize and after every outermost editing operation."  # third-session additions
)
ASSUMPTIONS = [
    "the reference is my reading of the docstrings; each transition quotes its sentence (cv/refmodel.py)",
    "fields the documentation leaves open (attributes of implicitly created metabolites, merge with right/sum objectives, group membership of renamed genes) are not compared",
    "list order is not compared",
]
REACH = [
    "core/model.py:Model.add_reactions",
    "core/model.py:Model.remove_reactions",
    "core/model.py:Model.remove_metabolites",
    "core/model.py:Model.add_boundary",
    "core/model.py:Model.add_groups",
    "core/reaction.py:Reaction.add_metabolites",
    "core/reaction.py:Reaction.__iadd__",
    "core/reaction.py:Reaction.__imul__",
    "core/reaction.py:Reaction.build_reaction_from_string",
    "core/reaction.py:Reaction.update_genes_from_gpr",
    "manipulation/delete.py:remove_genes",
    "manipulation/modify.py:rename_genes",
]
CRASH_IS_VIOLATION = True

# operations that have no failure mode at all for the argument shapes of the catalogue (cv/ops.py; their failing
# forms are separate ".failing" operations): an exception is a violation for these, and only counted for the others
# (solver-level helpers, optimize, add_boundary, medium, renaming to identifiers the solver may refuse ...).  On the
# unchanged tree none of them raised in any sweep (evidence: set "unpredicted_raises").
TOTAL = {
    "reaction*=", "reaction+=", "reaction-=", "reaction.add_metabolites", "reaction.subtract_metabolites", "reaction.knock_out",
    "gene.knock_out", "manipulation.knock_out_model_genes", "reaction.bounds=", "reaction.objective_coefficient=", "gene.functional=",
    "model.objective_direction=", "model.remove_reactions", "model.remove_metabolites", "reaction.remove_from_model",
    "metabolite.remove_from_model", "model.add_groups", "model.remove_groups",
}  # fmt: skip
DERIVED = {"metabolites": {"reactions", "outside_reactions"}, "genes": {"reactions", "outside_reactions"}, "reactions": set(), "groups": set()}


def minimums(tier):
    return {
        "evaluations": 5000,
        "distinct_nontrivial": 2500,
        "counters": {"steps_compared_with_reference": 4000, "frame_checks": 4000, "xref_checks": 5000, "steps_raised_as_documented": 150, "context_exits": 80},
        "sets": {"op_kinds_modelled": 30},
    }


def plan(tier, seed):
    n = 16 if tier == "quick" else 64
    per = 45 if tier == "quick" else 320
    return [{"cases": per, "base": seed * 1000003 + k} for k in range(n)]


def frame_diffs(before, after, touched):
    out = []
    for k in ("id", "name", "notes", "annotation", "compartments", "tolerance", "direction"):
        if k in touched["model"] or (k == "compartments"):
            continue
        if before[k] != after[k]:
            out.append(f"model.{k}: {before[k]!r} -> {after[k]!r}")
    obj_touched = "objective" in touched["model"]
    for layer in ("reactions", "metabolites", "genes", "groups"):
        A, B = before[layer], after[layer]
        for i in A:
            if i in touched[layer]:
                continue
            if i not in B:
                out.append(f"{layer[:-1]} {i}: disappeared although the operation does not concern it")
                continue
            for f, x in A[i].items():
                if f in DERIVED[layer] or (f == "obj" and obj_touched):
                    continue
                if f == "genes" and layer == "reactions":
                    continue  # derived from the rule; renamed/removed genes show up through touched reactions
                y = B[i].get(f)
                if x != y:
                    out.append(f"{layer[:-1]} {i}.{f}: {x!r} -> {y!r} although the operation does not concern it")
        for i in B:
            if i not in A and i not in touched[layer]:
                out.append(f"{layer[:-1]} {i}: appeared although the operation does not create it")
    return out


def xref_class(e):
    if "that is not in the model (dangling)" in e:
        return "lists-reaction-that-is-not-in-the-model"
    if "which does not list" in e:
        return "one-sided-reference"
    if "is not the model's object" in e or "get_by_id returns another object" in e:
        return "object-is-not-the-models-object-of-that-id"
    if "genes of rule" in e:
        return "reaction-genes-differ-from-rule"
    if ".model is not the model" in e:
        return "object-does-not-point-at-model"
    if "share one gene rule object" in e:
        return "reactions-share-a-rule-object"
    if "zero coefficient" in e:
        return "zero-coefficient-entry"
    if "duplicate" in e:
        return "duplicate-ids"
    if "not in model." in e:
        return "listed-object-not-in-model"
    if "group" in e:
        return "group-member-not-in-model"
    return "other"


def _member_links(model):
    """(object, reaction) pairs that are linked while both are members of the model."""
    out = set()
    for lst in (model.metabolites, model.genes):
        for x in lst:
            for r in x.reactions:
                if getattr(r, "_model", None) is model:
                    out.add((id(x), id(r)))
    return out


def dangling_is_outside_model(model, e, ever=None, gene_ops_seen=False):
    """Proves the known mechanism: the listed reaction has no model at all (it is the free
    reaction the metabolite / gene object was taken from)."""
    import re

    m = re.match(r"^(metabolite|gene) (.+) lists reaction (.+) that is not in the model", e)
    if not m:
        return False
    lst = model.metabolites if m.group(1) == "metabolite" else model.genes
    try:
        obj = lst.get_by_id(m.group(2))
    except KeyError:
        return False
    for r in obj.reactions:
        if r.id == m.group(3) and getattr(r, "_model", None) is not model:
            if ever is not None and (id(obj), id(r)) in ever:
                # at the previous observed step both were members of the model and linked: the reaction has left and the
                # object keeps listing it.  That is not the recorded mechanism (an object that *joins* the model while it
                # lists a reaction outside it) - unless it is the stale leftover of a renaming that C03 records
                if m.group(1) == "metabolite" or (observe._live(obj, r) and not gene_ops_seen):
                    return False
            return True
    return False


def run_case(base, case, acc):
    rng = gen.rng_for("C02", base, case)
    kind = rng.choice(["generated"] * 6 + ["empty", "mini", "textbook"])
    model, rec = hist.start_model(rng, kind)
    if rng.random() < 0.3 and len(model.reactions) > 2:
        import cobra

        members = rng.sample(list(model.reactions), 2) + ([model.metabolites[0]] if len(model.metabolites) else []) + ([model.genes[0]] if len(model.genes) else [])
        model.add_groups([cobra.core.Group("grp0", name="g", members=members)])
    H = ops.Hist(model, rng)
    allowed = ops.names()
    in_ctx = ops.names(with_tags=("rev",))
    ident = {"base": base, "case": case, "start": kind}
    # reactions that have been members of the model at some step (objects kept alive so that ids are not reused)
    st = {"ref": refmodel.abstract(model), "before": observe.content(model), "stack": [], "ok": True, "ever": _member_links(model), "keep": []}
    n_steps = rng.randint(1, 25)

    def monitor(H, k, name, desc, exc, trace):
        if VERBOSE:
            print(k, name, str(desc)[:200], ("RAISED " + hist.describe_exc(exc)) if exc else "", flush=True)
        acc.ev()
        model = H.model
        shape = h([name, sorted((desc or {}).keys()) if isinstance(desc, dict) else None, (desc or {}).get("form") if isinstance(desc, dict) else None, (desc or {}).get("combine") if isinstance(desc, dict) else None])
        w = lambda **kw: dict(ident, step=len(trace), trace=trace[-10:], **kw)
        # ---------------- cross references, always
        if name.startswith("detached.") and exc is None and H.entered and isinstance(desc, dict) and desc.get("what") == ["*=-1"]:
            # C01's recorded mechanism: the stoichiometry of a reaction outside the model is edited while an open context
            # still holds relative undo entries for it
            st.setdefault("detached_rescaled", []).append(len(H.entered))
        if name == "ctx.exit" and isinstance(desc, dict):
            left = desc.get("depth", 0) + 1
            if any(d >= left for d in st.get("detached_rescaled", [])):
                st["detached_taint"] = True
            st["detached_rescaled"] = [d for d in st.get("detached_rescaled", []) if d <= desc.get("depth", 0)]
        if name in ("manipulation.rename_genes", "manipulation.remove_genes"):
            # C03's recorded mechanism needs one of these in the history: a renamed / removed gene object that a
            # reaction outside the model still carries; when the names coincide again the association looks alive
            st["gene_ops_seen"] = True
        links_now = _member_links(model)
        acc.count("xref_checks")
        try:
            xe = observe.xref_errors(model)
        except Exception as e:
            xe = [f"cross references unreadable: {type(e).__name__}: {e}"]
        prev_links, st["ever"] = st["ever"], links_now
        st["keep"] = [list(model.reactions), list(model.metabolites), list(model.genes)]  # keeps the objects alive: ids stay unique
        if name == "ctx.exit" and isinstance(exc, TypeError) and "of interface type optlang.glpk_interface to model of type optlang.glpk_exact_interface" in str(exc):
            st["exit_failed_known"] = True  # from here on the model is left half undone
        if xe:
            st["ok"] = False
            cls = xref_class(xe[0])
            key = f"C02/xref/{cls}/{name}"
            if cls == "lists-reaction-that-is-not-in-the-model" and all(dangling_is_outside_model(model, e, prev_links, st.get("gene_ops_seen", False)) for e in xe if "dangling" in e) and all("dangling" in e for e in xe):
                key = "C02/xref/metabolite-or-gene-lists-a-reaction-outside-the-model"
            if st.get("detached_taint"):
                key = "C02/xref/after-leaving-a-block-in-which-a-detached-reaction-was-rescaled"
            if st.get("exit_failed_known"):
                # the exit itself (or an earlier, inner one) raised (recorded optlang mechanism of C01/C03): the undo
                # entries behind the failing one never ran, the model is left half undone
                key = "C02/xref/after-context-exit-that-raised/glpk_exact-objects-of-glpk-class-after-copy"
            acc.violation(key, f"after {name}: {xe[0]}", w(xref=xe[:6], raised=hist.describe_exc(exc) if exc else None))
            return False
        # ---------------- context bookkeeping
        if name == "ctx.enter":
            st["stack"].append((st["ref"], st["before"]))
            return True
        after = observe.content(model)
        act = refmodel.abstract(model)
        if name == "ctx.exit":
            acc.count("context_exits")
            ref0, before0 = st["stack"].pop() if st["stack"] else (st["ref"], st["before"])
            st["ref"], st["before"] = act, after  # what the exit restores is judged by C03
            return True
        if name == "model.copy" or (name == "model.merge" and not (desc or {}).get("inplace", True)):
            st["stack"] = []
        # ---------------- raised
        if exc is not None:
            try:
                res = refmodel.apply(st["ref"], name, desc if isinstance(desc, dict) else {})
                documented = res.raises
            except refmodel.Unspecified:
                documented = None
            except Exception:
                documented = None
            if desc is None and name.endswith(".failing"):
                documented = True
            if documented or name.endswith(".failing"):
                acc.count("steps_raised_as_documented")
            else:
                acc.count("steps_raised_not_predicted")
                acc.add("unpredicted_raises", f"{name}:{type(exc).__name__}")
                if name in TOTAL and not st.get("exit_failed_known"):
                    # "changes the model's content exactly as its documentation says": for these operations the
                    # documentation names no way to fail with the argument shapes the catalogue generates
                    acc.violation(
                        f"C02/{name}/raised-on-valid-arguments/{type(exc).__name__}",
                        f"{name} raised {type(exc).__name__}: {str(exc)[:160]} - the documentation describes a result for these arguments, not a failure",
                        w(args=desc),
                    )
                    st["ok"] = False
                    return False
            acc.nontrivial(shape, "raised", type(exc).__name__)
            st["ref"], st["before"] = act, after  # no atomicity is documented: re-synchronise
            return True
        # ---------------- returned normally
        try:
            res = refmodel.apply(st["ref"], name, desc if isinstance(desc, dict) else {})
        except refmodel.Unspecified:
            acc.count("steps_with_unspecified_semantics")
            st["ref"], st["before"] = act, after
            return True
        except KeyError as e:
            acc.count("reference_could_not_follow")
            st["ref"], st["before"] = act, after
            return True
        acc.add("op_kinds_modelled", name)
        if res.raises:
            st["ok"] = False
            acc.violation(f"C02/{name}/did-not-raise-although-documented", f"{name} is documented to fail for these arguments but returned normally", w(args=desc))
            return False
        acc.count("steps_compared_with_reference")
        ref = res.state
        if ref.get("direction") in ("unspecified-until-read",):
            ref["direction"] = act["direction"]
        if ref.get("objective") is None:
            ref_cmp = dict(ref, objective=None)
        d = refmodel.compare(ref, act)
        if d:
            st["ok"] = False
            field = _diff_field(d[0])
            acc.violation(f"C02/{name}/differs-from-documentation/{field}", f"after {name}: {d[0]}", w(args=desc, differences=d[:6]))
            return False
        acc.count("frame_checks")
        fd = frame_diffs(st["before"], after, res.touched)
        if fd:
            st["ok"] = False
            layer = fd[0].split(" ")[0]
            fld = fd[0].split(":")[0].split(".")[-1] if "." in fd[0].split(":")[0] else "presence"
            acc.violation(f"C02/{name}/changes-outside-its-frame/{layer}.{fld}", f"{name} changed something it does not concern: {fd[0]}", w(args=desc, differences=fd[:6]))
            return False
        if h(_canon(ref)) != h(_canon(st["ref"])):
            acc.nontrivial(shape, h(_canon(ref)))
        # new metabolites' attributes etc. are not documented: adopt the real ones
        st["ref"], st["before"] = act, after
        return True

    trace = hist.run_history(H, n_steps, allowed, monitor, ctx_prob=0.06, in_context=in_ctx, journal=lambda j: acc.journal(dict(j, **ident)))
    if st["ok"]:
        hist.close_contexts(H, monitor, trace)
    acc.count("histories")
    if case < 2:
        acc.sample({"start": kind, "trace": trace[:6]})


def _diff_field(line):
    if line.startswith("objective coefficients"):
        return "objective.coefficients"
    if line.startswith("objective direction"):
        return "objective.direction"
    kind = line.split(" ", 1)[0]
    if "documented to be in the model" in line or "documented not to be" in line:
        return f"{kind}.presence"
    for f in ("stoichiometry", "bounds", "gene rule", "functional", "members"):
        if f": {f}" in line:
            return f"{kind}.{f.replace(' ', '-')}"
    return f"{kind}.other"


def _canon(s):
    return {
        "r": {k: [sorted(v["stoich"].items()), list(v["bounds"]), str(v["rule"])] for k, v in s["reactions"].items()},
        "m": sorted(s["metabolites"]),
        "g": sorted((k, v["functional"]) for k, v in s["genes"].items()),
        "grp": {k: sorted(v["members"]) for k, v in s["groups"].items()},
        "o": s.get("objective"),
        "d": s.get("direction"),
    }


def run_probe(pr, acc):
    """Scripted case for the recorded finding: a context exit that raises (optlang's
    glpk_exact objects after unpickling) leaves the cross references half undone."""
    import pickle

    from cobra.manipulation import remove_genes
    from cv.props.c03 import _probe_model

    model = _probe_model()
    if pr["name"] == "detached-reaction-rescaled-in-context":
        # minimal form of what the thorough tier met (seed 4): the reaction gets a new metabolite, is removed together
        # with the orphan, is rescaled while outside the model, and comes back through the exit
        import cobra

        exc = None
        try:
            with model:
                r = model.reactions.R
                r.add_metabolites({cobra.Metabolite("fresh_c", compartment="c"): 1.5})
                model.remove_reactions([r], remove_orphans=True)
                r *= -1
        except Exception as e:
            exc = e
        acc.ev()
        acc.count("probes_run")
        xe = observe.xref_errors(model)
        if xe:
            acc.violation("C02/xref/after-leaving-a-block-in-which-a-detached-reaction-was-rescaled", f"after ctx.exit: {xe[0]}", {"probe": pr["name"], "xref": xe[:6], "raised": hist.describe_exc(exc) if exc else None})
        return
    model.solver = "glpk_exact"
    model = pickle.loads(pickle.dumps(model))
    exc = None
    try:
        with model:
            remove_genes(model, ["g1"], remove_reactions=True)
            model.remove_reactions([model.reactions.T])
    except Exception as e:
        exc = e
    acc.ev()
    acc.count("probes_run")
    xe = observe.xref_errors(model)
    if xe:
        key = f"C02/xref/{xref_class(xe[0])}/ctx.exit"
        if isinstance(exc, TypeError) and "of interface type optlang.glpk_interface to model of type optlang.glpk_exact_interface" in str(exc):
            key = "C02/xref/after-context-exit-that-raised/glpk_exact-objects-of-glpk-class-after-copy"
        acc.violation(key, f"after ctx.exit: {xe[0]}", {"probe": pr["name"], "xref": xe[:6], "raised": hist.describe_exc(exc) if exc else None})


def run_shard(desc, acc):
    if desc.get("kind") == "probes":
        for pr in desc["probes"]:
            run_probe(pr, acc)
        return
    first = desc.get("first", 0)
    for case in range(first, first + desc["cases"]):
        run_case(desc["base"], case, acc)
        acc.checkpoint()


def replay(w, acc):
    run_case(w["base"], w["case"], acc)
