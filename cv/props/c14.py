"""C14 - results do not depend on process count, scheduling or item order.

Monitors: (1) cross-schedule comparison - the same (function, model) is run under
varied process counts, item permutations, seeded chunk sizes and seeded per-task delays
(PoolTap); every item's value must agree across schedules, with the item asked alone
and with the serial run; (2) offline checker over the recorded event log - every task
executed exactly once, task->worker assignment and completion order reconstructed
(evidence: distinct assignments/orders actually observed); (3) carry-over invariant
evaluated inside the workers after every task (objective coefficients, bounds, gene
states equal those at the worker's first task); (4) OptGP: valid samples and identical
frames for the same seed and process count.
"""
import math
import os
import tempfile
import warnings

from cv import gen, oracles, taps
from cv.acc import h

PROPERTY = "C14"
LEVEL = "exploration"
RULE = (
    "case = one (function, model, schedule): FVA, find_blocked_reactions, find_essential_genes / "
    "reactions, single/double gene/reaction deletion on a generated model (8-30 reactions, 2-6 "
    "genes) or textbook; schedules = processes in {1,2,3,4,8} x a random permutation of the item "
    "list x seeded chunk size in {1,2,n//p,n} x seeded 0-5 ms delays before/after every task; each "
    "item also requested alone.  Non-trivial when multi-process with >= 2 tasks per worker; "
    "distinct by (function, model hash, processes, permutation hash, chunk size)."
    " Items are given as objects in 40 % of the schedules; OptGP samplers are asked repeatedly (sample(8); sample(5); batch(3, 2)) with a differential oracle for the sampler's give-up."  # third-session additions
)
ASSUMPTIONS = [
    "values compared with 1e-6 relative; fork start method (platform default)",
    "orders are sampled by perturbation, not enumerated",
    "carry-over check uses the worker-private `_model` global when present (extra observability, skipped otherwise)",
]
# (worker-side functions such as _fva_step run in the children; that they ran is shown
# by the event log, the reach set only sees the parent)
REACH = [
    "flux_analysis/variability.py:flux_variability_analysis",
    "flux_analysis/deletion.py:_multi_deletion",
    "util/process_pool.py:ProcessPool.__init__",
    "util/process_pool.py:ProcessPool.__exit__",
    "sampling/optgp.py:OptGPSampler.sample",
]


def minimums(tier):
    return {
        "evaluations": 300,
        "distinct_nontrivial": 80,
        "counters": {"schedules_run": 150, "multiprocess_schedules": 100, "task_events_logged": 3000, "exactly_once_checks": 100, "carry_over_checks_in_workers": 2000, "single_item_comparisons": 100, "optgp_runs": 8},
        "sets": {"functions": 7, "distinct_task_to_worker_maps": 40, "distinct_completion_orders": 40, "chunk_sizes_used": 3, "process_counts": 4},
    }


def plan(tier, seed):
    n = 15 if tier == "quick" else 60
    per = 3 if tier == "quick" else 20
    out = [{"kind": "generated", "cases": per, "base": seed * 1000003 + k} for k in range(n)]
    out.append({"kind": "textbook", "base": seed})
    return out


def near(a, b):
    if a is None or b is None:
        return a is b
    if isinstance(a, float) and isinstance(b, float) and (math.isnan(a) or math.isnan(b)):
        return math.isnan(a) and math.isnan(b)
    return abs(a - b) <= 1e-6 * max(1.0, abs(b))


def functions():
    import cobra.flux_analysis as fa

    def fva(m, items, p):
        df = fa.flux_variability_analysis(m, reaction_list=items, processes=p)
        return {i: (float(df.at[i, "minimum"]), float(df.at[i, "maximum"])) for i in df.index}

    def fva_frac(m, items, p):
        df = fa.flux_variability_analysis(m, reaction_list=items, fraction_of_optimum=0.8, processes=p)
        return {i: (float(df.at[i, "minimum"]), float(df.at[i, "maximum"])) for i in df.index}

    def fva_loopless(m, items, p):
        df = fa.flux_variability_analysis(m, reaction_list=items, loopless=True, processes=p)
        return {i: (float(df.at[i, "minimum"]), float(df.at[i, "maximum"])) for i in df.index}

    def blocked(m, items, p):
        got = set(fa.find_blocked_reactions(m, reaction_list=items, processes=p))
        return {getattr(i, "id", i): (1.0 if getattr(i, "id", i) in got else 0.0,) for i in items}

    def srd(m, items, p):
        df = fa.single_reaction_deletion(m, items, processes=p)
        return {",".join(sorted(ids)): (float(g), 1.0 if s == "optimal" else 0.0) for ids, g, s in zip(df.ids, df.growth, df.status)}

    def sgd(m, items, p):
        df = fa.single_gene_deletion(m, items, processes=p)
        return {",".join(sorted(ids)): (float(g), 1.0 if s == "optimal" else 0.0) for ids, g, s in zip(df.ids, df.growth, df.status)}

    def _pairs_expected(l1, l2):
        return {",".join(sorted({a, b})) for a in l1 for b in l2}

    def drd2(m, items, p):
        # two different lists: the second is the reversed tail of the first plus its head
        # (the *sets* do not depend on the item order the schedule uses, only the orders do)
        l1 = list(items)
        _id = lambda x: getattr(x, "id", x)
        first = min(_id(x) for x in items)
        l2 = [x for x in reversed(items) if _id(x) != first]
        df = fa.double_reaction_deletion(m, l1, l2, processes=p)
        out = {",".join(sorted(ids)): (float(g), 1.0 if s == "optimal" else 0.0) for ids, g, s in zip(df.ids, df.growth, df.status)}
        for k in _pairs_expected([_id(x) for x in l1], [_id(x) for x in l2]) - set(out):
            out[k] = (float("nan"), -1.0)  # every requested unordered pair must have its row (judged in run_function)
        return out

    def drd(m, items, p):
        df = fa.double_reaction_deletion(m, items, items, processes=p)
        return {",".join(sorted(ids)): (float(g), 1.0 if s == "optimal" else 0.0) for ids, g, s in zip(df.ids, df.growth, df.status)}

    def dgd(m, items, p):
        df = fa.double_gene_deletion(m, items, items, processes=p)
        return {",".join(sorted(ids)): (float(g), 1.0 if s == "optimal" else 0.0) for ids, g, s in zip(df.ids, df.growth, df.status)}

    def _at_threshold(m, df):
        """ids whose knock-out growth equals the default threshold (1 % of the optimum) up
        to solver noise: '<' is decided by rounding there, in any schedule (borderline)."""
        import math

        thr = 0.01 * m.slim_optimize()
        out = set()
        for ids, g in zip(df.ids, df.growth):
            if not math.isnan(g) and abs(g - thr) <= 1e-6 * max(1.0, abs(thr)):
                out |= set(ids)
        return out

    def srd_moma(m, items, p):
        df = fa.single_reaction_deletion(m, items, method="linear moma", solution=m._cv_ref, processes=p)
        return {list(ids)[0]: (float(g), 1.0 if s == "optimal" else 0.0) for ids, g, s in zip(df.ids, df.growth, df.status)}

    def sgd_moma(m, items, p):
        df = fa.single_gene_deletion(m, items, method="linear moma", solution=m._cv_ref, processes=p)
        return {list(ids)[0]: (float(g), 1.0 if s == "optimal" else 0.0) for ids, g, s in zip(df.ids, df.growth, df.status)}

    def ess_r(m, items, p):
        got = {r.id for r in fa.find_essential_reactions(m, processes=p)}
        skip = _at_threshold(m, fa.single_reaction_deletion(m, processes=1))
        return {r.id: (1.0 if r.id in got else 0.0,) for r in m.reactions if r.id not in skip}

    def ess_g(m, items, p):
        got = {g.id for g in fa.find_essential_genes(m, processes=p)}
        skip = _at_threshold(m, fa.single_gene_deletion(m, processes=1))
        return {g.id: (1.0 if g.id in got else 0.0,) for g in m.genes if g.id not in skip}

    return {
        "fva": (fva, "reactions", True),
        "fva(fraction)": (fva_frac, "reactions", True),
        "fva(loopless)": (fva_loopless, "reactions", True),
        "find_blocked_reactions": (blocked, "reactions", True),
        "single_reaction_deletion": (srd, "reactions", True),
        "single_gene_deletion": (sgd, "genes", True),
        "single_reaction_deletion(linear moma)": (srd_moma, "reactions", True),
        "single_gene_deletion(linear moma)": (sgd_moma, "genes", True),
        "double_reaction_deletion": (drd, "reactions-few", False),
        "double_reaction_deletion(two lists)": (drd2, "reactions-few", False),
        "double_gene_deletion": (dgd, "genes", False),
        "find_essential_reactions": (ess_r, "all", False),
        "find_essential_genes": (ess_g, "all", False),
    }


def check_events(acc, tapx, expected_tasks, ident, fname):
    ev = tapx.events()
    acc.count("task_events_logged", len(ev))
    acc.count("exactly_once_checks")
    got = sorted(e["task"] for e in ev)
    # a call makes one pool per phase (FVA: min and max) - expected_tasks is per phase
    phases = max(1, len(tapx.calls))
    want = sorted(expected_tasks * phases)
    if got != want:
        from collections import Counter

        c, w = Counter(got), Counter(want)
        twice = [t for t in c if c[t] > w.get(t, 0)][:4]
        never = [t for t in w if c.get(t, 0) < w[t]][:4]
        acc.violation(
            f"C14/{fname}/task-not-exactly-once/" + ("twice" if twice else "never"),
            f"{fname}: tasks executed more often than submitted {twice}, less often {never}",
            dict(ident, twice=twice, never=never, n_events=len(ev), calls=tapx.calls),
        )
        return False
    bad = [e for e in ev if e["carry"] not in (None, "ok")]
    acc.count("carry_over_checks_in_workers", sum(1 for e in ev if e["carry"] is not None))
    if bad:
        acc.violation(
            f"C14/{fname}/state-carried-over-in-worker/" + "+".join(sorted(set(sum((e["carry"] for e in bad), [])))[:3]),
            f"{fname}: after task {bad[0]['task']} the worker's model differs from its state before the first task in {bad[0]['carry']}",
            dict(ident, task=bad[0]["task"], fields=bad[0]["carry"], calls=tapx.calls),
        )
        return False
    # evidence: what was actually observed
    pids = sorted({e["pid"] for e in ev})
    amap = h(sorted((e["task"], pids.index(e["pid"])) for e in ev))
    order = h([e["task"] for e in sorted(ev, key=lambda e: e["t1"])])
    acc.add("distinct_task_to_worker_maps", amap)
    acc.add("distinct_completion_orders", order)
    acc.add("worker_counts", str(len(pids)))
    for c in tapx.calls:
        acc.add("chunk_sizes_used", str(c["chunksize_used"]))
    per_worker = {}
    for e in ev:
        per_worker[e["pid"]] = per_worker.get(e["pid"], 0) + 1
    return max(per_worker.values()) >= 2 if per_worker else False


def moma_not_unique(model, fname, item, values):
    """Proves the mechanism of the recorded linear-MOMA finding for one item: every reported
    (growth, status) is an admissible answer - status optimal and growth inside the exact
    range of the objective over *all* minimal-adjustment solutions of the knocked-out
    problem (cv.oracles.moma_exact) - and that range is a proper interval."""
    from cv import oracles

    if "gene" in fname:
        absent = {item}
        knocked = [r.id for r in model.reactions if r.gene_reaction_rule and not r.gpr.eval(absent)]
        trees = getattr(model, "_cv_rules", None)
        if trees is not None:  # independent of cobrapy's evaluator
            knocked = [rid for rid, t in trees.items() if t is not None and not gen.gpr_eval(t, absent)]
    else:
        knocked = [item]
    P = oracles.Problem(model, knocked=knocked)
    ref = {r.id: float(model._cv_ref.fluxes[r.id]) for r in model.reactions}
    m = oracles.moma_exact(P, ref)
    if m is None:
        return False
    D, gmin, gmax = m
    if gmin == gmax:
        return False
    slack = 1e-6 * max(1.0, abs(float(gmin)), abs(float(gmax)))
    return all(v[1] == 1.0 and float(gmin) - slack <= v[0] <= float(gmax) + slack for v in values)


def run_function(acc, rng, model, fname, F, ident0, tmpdir, rec_sig):
    fn, itemkind, single_ok = F[fname]
    if itemkind == "reactions":
        items = [r.id for r in model.reactions]
    elif itemkind == "reactions-few":
        items = rng.sample([r.id for r in model.reactions], min(5, len(model.reactions)))
    elif itemkind == "genes":
        items = [g.id for g in model.genes][:6]
    else:
        items = None
    if items is not None and len(items) < 2:
        return
    acc.add("functions", fname)
    with warnings.catch_warnings():
        warnings.simplefilter("ignore")
        try:
            base_res = fn(model, items, 1)
        except Exception as e:
            acc.count("serial_run_raised_skipped")
            return
    acc.ev()
    acc.count("schedules_run")
    missing = sorted(k for k, v in base_res.items() if len(v) > 1 and v[1] == -1.0) if fname.endswith("(two lists)") else []
    if missing:
        acc.violation(f"C14/{fname}/requested-combination-has-no-row", f"{fname}: no row for the requested combinations {missing[:4]} ({len(missing)} missing) although each of them, asked alone, has one", dict(ident0, function=fname, missing=missing[:10]))
        return
    for sched in range(3):
        p = rng.choice([2, 2, 3, 4, 8])
        perm = list(items) if items is not None else None
        if perm is not None:
            rng.shuffle(perm)
        chunk_mode = rng.choice(["keep", "seeded", "seeded", "one"])
        ident = dict(ident0, function=fname, processes=p, permutation=perm, chunk_mode=chunk_mode, schedule=sched)
        acc.journal(dict(ident, about_to_run=fname))
        acc.add("process_counts", str(p))
        logpath = os.path.join(tmpdir, f"ev-{fname}-{sched}.log")
        if os.path.exists(logpath):
            os.remove(logpath)
        with taps.PoolTap(seed=rng.random(), logpath=logpath, chunk_mode=chunk_mode) as tapx:
            try:
                with warnings.catch_warnings():
                    warnings.simplefilter("ignore")
                    arg = perm
                    if perm is not None and itemkind in ("reactions", "reactions-few", "genes") and rng.random() < 0.4:
                        # the documented calling form with objects: what reaches a worker through the task queue is a
                        # pickled copy of the object, the result must be the one for the worker's own model all the same
                        lst = model.genes if itemkind == "genes" else model.reactions
                        arg = [lst.get_by_id(i) for i in perm]
                        ident["items_as"] = "objects"
                        acc.count("schedules_with_items_given_as_objects")
                    res = fn(model, arg, p)
            except Exception as e:
                acc.ev()
                acc.violation(f"C14/{fname}/raised-under-schedule/{type(e).__name__}", f"{fname} with {p} processes raised {type(e).__name__}: {str(e)[:160]} (the serial run succeeded)", ident)
                continue
        acc.ev()
        acc.count("schedules_run")
        if tapx.calls:
            acc.count("multiprocess_schedules")
            if itemkind in ("reactions", "genes") and fname.startswith(("fva", "single")):
                expected = [repr(i) if fname.startswith("fva") else repr([i]) for i in perm]
            else:
                expected = None
            if expected is not None:
                multi = check_events(acc, tapx, expected, ident, fname)
            else:
                ev = tapx.events()
                acc.count("task_events_logged", len(ev))
                bad = [e for e in ev if e["carry"] not in (None, "ok")]
                acc.count("carry_over_checks_in_workers", sum(1 for e in ev if e["carry"] is not None))
                if bad:
                    acc.violation(f"C14/{fname}/state-carried-over-in-worker/" + "+".join(sorted(set(sum((e["carry"] for e in bad), [])))[:3]), f"{fname}: worker model differs after task {bad[0]['task']} in {bad[0]['carry']}", dict(ident, calls=tapx.calls))
                    continue
                from collections import Counter

                c = Counter(e["task"] for e in ev)
                dup = [t for t, k in c.items() if k > 1 and not fname.startswith("find_blocked")]
                if dup and len(tapx.calls) == 1:
                    acc.violation(f"C14/{fname}/task-not-exactly-once/twice", f"{fname}: task {dup[0]} executed {c[dup[0]]} times", dict(ident, calls=tapx.calls))
                    continue
                pids = sorted({e["pid"] for e in ev})
                acc.add("distinct_task_to_worker_maps", h(sorted((e["task"], pids.index(e["pid"])) for e in ev)))
                acc.add("distinct_completion_orders", h([e["task"] for e in sorted(ev, key=lambda e: e["t1"])]))
                multi = len(ev) > len(pids)
            if multi:
                acc.nontrivial(fname, rec_sig, p, h(perm), chunk_mode)
        # compare with the serial run
        if set(res) != set(base_res):
            acc.violation(f"C14/{fname}/items-differ-between-schedules", f"{fname}: items {sorted(set(res) ^ set(base_res))[:5]} appear in one schedule only", ident)
            continue
        bad = [(k, res[k], base_res[k]) for k in res if not all(near(a, b) for a, b in zip(res[k], base_res[k]))]
        if bad and "moma" in fname:
            proved = [b for b in bad if moma_not_unique(model, fname, b[0], [b[1], b[2]])]
            if proved:
                acc.violation(
                    f"C14/{fname.split('(')[0]}/linear-moma/growth-not-unique-at-the-minimal-adjustment-optimum",
                    f"{fname}: {proved[0][0]} = {proved[0][1]} with {p} processes / this order, {proved[0][2]} serially; both lie in the exact range of the objective over all minimal-adjustment solutions",
                    dict(ident, item=proved[0][0], parallel=list(proved[0][1]), serial=list(proved[0][2]), n_differing=len(proved)),
                )
            bad = [b for b in bad if b not in proved]
        if bad and fname == "fva(loopless)":
            # the loopless option post-processes whichever optimal vertex the solver stops at (CycleFreeFlux, C05's
            # recorded inexactness): for a reaction on an internal cycle the reported extreme follows that vertex and with
            # it the basis the worker's previous task left.  Proved per item: the reaction lies on an internal cycle
            # (exact null space of the internal stoichiometry).  A reaction on no cycle has one loop-free answer.
            cyc = set(oracles.Cycles(model).cycle_rxns)
            proved = [b for b in bad if b[0] in cyc]
            if proved:
                acc.violation(
                    "C14/fva(loopless)/cyclefreeflux-result-follows-the-vertex-the-worker-stops-at",
                    f"fva(loopless): {proved[0][0]} (on an internal cycle) = {proved[0][1]} with {p} processes / this order, {proved[0][2]} serially",
                    dict(ident, item=proved[0][0], parallel=list(proved[0][1]), serial=list(proved[0][2]), n_differing=len(proved)),
                )
            bad = [b for b in bad if b not in proved]
        if bad:
            acc.violation(
                f"C14/{fname}/value-depends-on-schedule",
                f"{fname}: {bad[0][0]} = {bad[0][1]} with {p} processes / this order, {bad[0][2]} serially",
                dict(ident, item=bad[0][0], parallel=list(bad[0][1]), serial=list(bad[0][2]), n_differing=len(bad)),
            )
            continue
    # single items
    if single_ok and items:
        for it in rng.sample(items, min(3, len(items))):
            acc.ev()
            acc.count("single_item_comparisons")
            try:
                with warnings.catch_warnings():
                    warnings.simplefilter("ignore")
                    one = fn(model, [it], 1)
            except Exception as e:
                acc.violation(f"C14/{fname}/single-item-raised/{type(e).__name__}", f"{fname}([{it}]) raised {type(e).__name__}: {str(e)[:120]}", dict(ident0, function=fname, item=it))
                continue
            k = it
            if "moma" in fname and k in one and k in base_res and not all(near(a, b) for a, b in zip(one[k], base_res[k])) and moma_not_unique(model, fname, k, [one[k], base_res[k]]):
                acc.violation(
                    f"C14/{fname.split('(')[0]}/linear-moma/growth-not-unique-at-the-minimal-adjustment-optimum",
                    f"{fname}: {it} alone gives {one.get(k)}, in the full list {base_res.get(k)}; both lie in the exact range of the objective over all minimal-adjustment solutions",
                    dict(ident0, function=fname, item=it),
                )
                continue
            if fname == "fva(loopless)" and k in one and k in base_res and not all(near(a, b) for a, b in zip(one[k], base_res[k])) and k in set(oracles.Cycles(model).cycle_rxns):
                acc.violation(
                    "C14/fva(loopless)/cyclefreeflux-result-follows-the-vertex-the-worker-stops-at",
                    f"fva(loopless): {it} (on an internal cycle) alone gives {one.get(k)}, in the full list {base_res.get(k)}",
                    dict(ident0, function=fname, item=it),
                )
                continue
            if k not in one or k not in base_res or not all(near(a, b) for a, b in zip(one[k], base_res[k])):
                acc.violation(f"C14/{fname}/item-alone-differs-from-item-in-list", f"{fname}: {it} alone gives {one.get(k)}, in the full list {base_res.get(k)}", dict(ident0, function=fname, item=it))


def run_optgp(acc, rng, model, ident0):
    from cobra.sampling import OptGPSampler
    from cv.props.c09 import feasibility_problems

    for p in (1, 2, 4):
        ident = dict(ident0, function="optgp", processes=p)
        acc.journal(dict(ident, about_to_run="optgp"))
        try:
            with warnings.catch_warnings():
                warnings.simplefilter("ignore")
                try:
                    sa = OptGPSampler(model, processes=p, thinning=3, seed=11)
                    sb = OptGPSampler(model, processes=p, thinning=3, seed=11)
                except ValueError:
                    # only the constructor's refusal of a degenerate space is a documented outcome
                    acc.count("optgp_refused_model")
                    return
                a = sa.sample(8)
                b = sb.sample(8)
                # the same sampler asked again, with a count that is no multiple of the process count, and in batches:
                # its bookkeeping (samples drawn so far, running centre) must follow what was actually drawn
                gave_up = 0
                for seed2 in (11, 12, 13):
                    s_re = sa if seed2 == 11 else OptGPSampler(model, processes=p, thinning=3, seed=seed2)
                    try:
                        if seed2 != 11:
                            s_re.sample(8)
                        s_re.sample(5)
                        list(s_re.batch(3, 2))
                        acc.count("optgp_repeated_draws")
                        break
                    except RuntimeError as e:
                        if "Cannot escape sampling region" not in str(e):
                            raise
                        gave_up += 1
                if gave_up == 3:
                    # the sampler's documented give-up, three seeds in a row, on repeated draws only: does a sampler
                    # that is asked for everything at once give up as well?
                    fresh_ok = 0
                    for seed2 in (11, 12, 13):
                        try:
                            OptGPSampler(model, processes=p, thinning=3, seed=seed2).sample(8 + 5 + 6)
                            fresh_ok += 1
                        except RuntimeError:
                            pass
                    if fresh_ok == 3:
                        acc.ev()
                        acc.violation("C14/optgp/repeated-draws-give-up-where-one-draw-does-not", f"OptGP with {p} processes: sample(8); sample(5); batch(3, 2) ends in 'Cannot escape sampling region' for seeds 11, 12 and 13, while fresh samplers asked for 19 samples at once succeed for all three", ident)
                        return
                    acc.count("optgp_gave_up_cannot_escape_region")
        except Exception as e:
            acc.ev()
            acc.violation(f"C14/optgp/raised/{type(e).__name__}", f"OptGP with {p} processes raised {type(e).__name__}: {str(e)[:150]}", ident)
            return
        acc.ev()
        acc.count("optgp_runs")
        try:
            with warnings.catch_warnings():
                warnings.simplefilter("ignore")
                import numpy as _np

                s1 = OptGPSampler(model, processes=p, thinning=3, seed=11)
                s2 = OptGPSampler(model, processes=p, thinning=3, seed=11)
                _np.random.random(3)  # the caller's own use of numpy's global generator
                b2 = s2.sample(8)
                a2 = s1.sample(8)
            if not (a2.equals(a) and b2.equals(a)):
                acc.violation("C14/optgp/not-reproducible-for-seed-and-process-count/depends-on-what-happened-between-construction-and-sampling", f"OptGP, seed 11, {p} processes: samplers built first and sampled later (in the other order, with a call to numpy's global generator in between) differ from a sampler used at once", ident)
                return
        except Exception as e:
            acc.violation(f"C14/optgp/raised/{type(e).__name__}", f"OptGP with {p} processes raised {type(e).__name__}: {str(e)[:150]}", ident)
            return
        if not a.equals(b):
            acc.violation("C14/optgp/not-reproducible-for-seed-and-process-count", f"two OptGP runs with seed 11 and {p} processes differ", ident)
            return
        for i in range(len(a)):
            probs = feasibility_problems(model, a.iloc[i], 2 * (model.tolerance or 1e-7) * 100)
            if probs:
                acc.violation("C14/optgp/invalid-sample", f"OptGP sample {i} with {p} processes is not feasible: {probs[0]}", ident)
                return
        acc.nontrivial("optgp", p, h(ident0))


def run_probe(pr, acc):
    """Committed deterministic case for the linear-MOMA finding: the same item asked in two
    serial item orders (the previous task's basis differs) - no pool needed."""
    F = functions()
    rec = pr["recipe"]
    with warnings.catch_warnings():
        warnings.simplefilter("ignore")
        model = gen.build(rec)
        model._cv_ref = model.optimize()
        model._cv_rules = {d["id"]: gen._tuplify(d["gpr"]) for d in rec["rxns"]}
        fn = F[pr["function"]][0]
        a = fn(model, pr["order_a"], 1)
        b = fn(model, pr["order_b"], 1)
    acc.ev()
    acc.count("probes_run")
    it = pr["item"]
    fname = pr["function"]
    ident = {"probe": pr["name"], "function": fname, "item": it, "order_a": pr["order_a"], "order_b": pr["order_b"]}
    if not all(near(x, y) for x, y in zip(a[it], b[it])):
        if moma_not_unique(model, fname, it, [a[it], b[it]]):
            acc.violation(
                f"C14/{fname.split('(')[0]}/linear-moma/growth-not-unique-at-the-minimal-adjustment-optimum",
                f"{fname}: {it} = {a[it]} in item order A, {b[it]} in item order B (both serial); both lie in the exact range of the objective over all minimal-adjustment solutions",
                ident,
            )
        else:
            acc.violation(f"C14/{fname}/value-depends-on-item-order", f"{fname}: {it} = {a[it]} in item order A, {b[it]} in item order B (both serial)", ident)


def run_shard(desc, acc):
    if desc.get("kind") == "probes":
        for pr in desc["probes"]:
            run_probe(pr, acc)
        return
    F = functions()
    with tempfile.TemporaryDirectory(prefix="cv-c14-") as tmpdir:
        if desc["kind"] == "textbook":
            from cv import hist

            rng = gen.rng_for("C14t", desc["base"])
            model = hist.bundled("textbook")
            ident0 = {"model": "textbook", "base": desc["base"]}
            for fname in ("fva", "single_gene_deletion", "find_blocked_reactions"):
                run_function(acc, rng, model, fname, F, ident0, tmpdir, "textbook")
            run_optgp(acc, rng, model, ident0)
            acc.sample({"model": "textbook", "functions": ["fva", "single_gene_deletion", "find_blocked_reactions", "optgp"]})
            return
        first = desc.get("first", 0)
        for case in range(first, first + desc["cases"]):
            rng = gen.rng_for("C14", desc["base"], case)
            rec = gen.network(rng, genes=rng.randint(2, 6), size=rng.randint(2, 3), finite=True)
            lab, _r = gen.classify(rec)
            if lab["status"] != "optimal":
                continue
            with warnings.catch_warnings():
                warnings.simplefilter("ignore")
                model = gen.build(rec)
            ident0 = {"base": desc["base"], "case": case}
            sig = gen.recipe_sig(rec)
            model._cv_ref = model.optimize()  # one fixed reference distribution for linear MOMA
            if rng.random() < 0.5:  # addressed by id, not by position
                model._cv_ref = gen.reordered_solution(model._cv_ref, rng)
            model._cv_rules = {d["id"]: gen._tuplify(d["gpr"]) for d in rec["rxns"]}
            for fname in rng.sample(sorted(F), 3):
                run_function(acc, rng, model, fname, F, ident0, tmpdir, sig)
            if case == first:
                run_optgp(acc, rng, model, ident0)
                acc.sample({"n_reactions": len(rec["rxns"]), "genes": [g.id for g in model.genes]})
            acc.checkpoint()


def replay(w, acc):
    if w.get("model") == "textbook":
        run_shard({"kind": "textbook", "base": w["base"]}, acc)
    else:
        run_shard({"kind": "generated", "base": w["base"], "first": w["case"], "cases": 1}, acc)
