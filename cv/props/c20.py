"""C20 - summaries report the fluxes of the solution they describe.

Oracle: every frame is recomputed from the Solution and the model's content (boundary
list, coefficients, tolerance rule, FVA scaling with min/max swap for negative
coefficients) and compared; all summaries of the model, every metabolite and every
reaction are rendered in every form.
"""
import math
import re
import warnings

from cv import gen, oracles
from cv.acc import h

PROPERTY = "C20"
LEVEL = "exploration"
RULE = (
    "case = one summary object (model / metabolite / reaction) for a solution that is given "
    "(FBA vertex, pFBA, harness-built loopful optimal vector) or defaulted (captured), without "
    "fva, with fva as float or as frame, on generated models with non-unit and negative boundary "
    "coefficients, import-written exchanges, zero-flux reactions and single-reaction "
    "metabolites; every object is rendered as text, HTML and frame with names on/off and a "
    "threshold.  Non-trivial when >= 1 non-zero flux is shown; distinct by (model hash, object "
    "kind and id, solution kind, fva kind)."
)
ASSUMPTIONS = [
    "fluxes whose scaled magnitude is below model.tolerance are shown as 0 (documented tolerance rule)",
    "balance of producing/consuming totals judged with 1e-6 relative (steady-state solutions)",
]
REACH = [
    "summary/model_summary.py:ModelSummary._generate",
    "summary/metabolite_summary.py:MetaboliteSummary._generate",
    "summary/reaction_summary.py:ReactionSummary._generate",
    "summary/reaction_summary.py:ReactionSummary._string_flux",
    "summary/model_summary.py:ModelSummary.to_html",
    "summary/metabolite_summary.py:MetaboliteSummary.to_string",
]
TOL = 1e-6


def minimums(tier):
    return {
        "evaluations": 2000,
        "distinct_nontrivial": 500,
        "counters": {"model_summaries": 150, "metabolite_summaries": 800, "reaction_summaries": 800, "renderings": 6000, "fva_summaries": 80, "negative_or_nonunit_boundary_factors": 50},
        "sets": {"solution_kinds": 3, "fva_kinds": 3},
    }


def plan(tier, seed):
    n = 16 if tier == "quick" else 64
    per = 9 if tier == "quick" else 60
    return [{"cases": per, "base": seed * 1000003 + k} for k in range(n)]


def close(a, b):
    return abs(a - b) <= TOL * max(1.0, abs(b))


def render_all(acc, obj, kind, ident):
    forms = [
        ("to_string", lambda: obj.to_string()),
        ("to_string(names)", lambda: obj.to_string(names=True)),
        ("to_string(threshold)", lambda: obj.to_string(threshold=0.5)),
        ("to_html", lambda: obj.to_html()),
        ("to_html(names)", lambda: obj.to_html(names=True, threshold=1e-3)),
        ("str", lambda: str(obj)),
        ("_repr_html_", lambda: obj._repr_html_()),
        ("to_frame", lambda: obj.to_frame()),
    ]
    for name, fn in forms:
        acc.count("renderings")
        try:
            with warnings.catch_warnings():
                warnings.simplefilter("ignore")
                out = fn()
            if name != "to_frame" and not isinstance(out, str):
                acc.violation(f"C20/{kind}/render/{name}/not-a-string", f"{name} returned {type(out).__name__}", dict(ident, form=name))
                return False
        except Exception as e:
            acc.violation(
                f"C20/{kind}/render/{name.split('(')[0]}/{type(e).__name__}",
                f"{kind} summary {name} raised {type(e).__name__}: {str(e)[:120]}",
                dict(ident, form=name),
            )
            return False
    return True


def run_case(base, case, acc):
    import cobra
    import pandas as pd
    from cobra.flux_analysis import flux_variability_analysis, pfba

    rng = gen.rng_for("C20", base, case)
    rec = gen.network(rng, genes=0, finite=True, size=rng.randint(1, 2), allow_forced=rng.random() < 0.3)
    lab, res = gen.classify(rec)
    if lab["status"] != "optimal":
        acc.count("skipped_no_optimum")
        return
    z = res.obj
    if (rec["direction"] == "max" and z < 0) or (rec["direction"] == "min" and z > 0):
        acc.count("skipped_optimum_of_other_sign")
        return
    with warnings.catch_warnings():
        warnings.simplefilter("ignore")
        model = gen.build(rec)
    rids = [r.id for r in model.reactions]
    tol = model.tolerance
    sig = gen.recipe_sig(rec)
    wrec = lambda: rec if len(str(rec)) < 6000 else None
    sols = {}
    sols["fba"] = model.optimize()
    try:
        sols["pfba"] = pfba(model)
    except Exception:
        pass
    cyc = oracles.Cycles(model)
    if cyc.N:
        from cv.exactlp import fr
        from cobra.util.solver import linear_reaction_coefficients

        cf = {r.id: k for r, k in linear_reaction_coefficients(model).items()}
        neutral = [n for n in cyc.N if sum(fr(cf.get(rid, 0.0)) * n[k] for k, rid in enumerate(cyc.internal)) == 0]
        if neutral:
            nvec = neutral[0]
            v = {rid: float(sols["fba"].fluxes[rid]) for rid in rids}
            alpha = None
            for k, rid in enumerate(cyc.internal):
                nv = float(nvec[k])
                if nv == 0:
                    continue
                r = model.reactions.get_by_id(rid)
                room_ = (r.upper_bound - v[rid]) / nv if nv > 0 else (r.lower_bound - v[rid]) / nv
                alpha = room_ if alpha is None else min(alpha, room_)
            if alpha is not None and alpha > 1e-3 and math.isfinite(alpha):
                for k, rid in enumerate(cyc.internal):
                    v[rid] += 0.5 * alpha * float(nvec[k])
                sols["loopful"] = cobra.Solution(objective_value=sols["fba"].objective_value, status="optimal", fluxes=pd.Series(v).reindex(rids))
    sols["default"] = None
    nneg = sum(1 for r in model.boundary for c in r.metabolites.values() if c != -1)
    acc.count("negative_or_nonunit_boundary_factors", nneg)
    ident0 = {"base": base, "case": case}

    for skind in rng.sample(sorted(sols), min(3, len(sols))):
        acc.add("solution_kinds", skind)
        fkind = rng.choice(["none", "none", "float", "frame"])
        acc.add("fva_kinds", fkind)
        frac = rng.choice([1.0, 0.9, 0.5])
        fva_arg = None
        fva_frame = None
        if fkind != "none":
            try:
                with warnings.catch_warnings():
                    warnings.simplefilter("ignore")
                    fva_frame = flux_variability_analysis(model, fraction_of_optimum=frac, processes=1)
            except Exception:
                fkind, fva_frame = "none", None
            fva_arg = frac if fkind == "float" else fva_frame
            if fkind != "none":
                acc.count("fva_summaries")
        ident = dict(ident0, solution=skind, fva=fkind, fraction=frac if fkind != "none" else None)
        acc.journal(dict(ident, about_to_run="summary"))
        sol = sols[skind]
        captured = {}
        taps = []
        if sol is None:
            import importlib
            import sys

            for modname in ("cobra.summary.model_summary", "cobra.summary.metabolite_summary", "cobra.summary.reaction_summary"):
                importlib.import_module(modname)
                mod = sys.modules[modname]
                orig = mod.pfba

                def tap(*a, _orig=orig, **k):
                    s = _orig(*a, **k)
                    captured["last"] = s
                    return s

                mod.pfba = tap
                taps.append((mod, orig))
        try:
            # ---------------------------------------------------------------- model summary
            try:
                with warnings.catch_warnings():
                    warnings.simplefilter("ignore")
                    ms = model.summary(solution=sol, fva=fva_arg)
            except Exception as e:
                acc.ev()
                acc.violation(f"C20/model/construct/{type(e).__name__}", f"model.summary raised {type(e).__name__}: {str(e)[:160]}", dict(ident, start_recipe=wrec()))
                continue
            use = sol if sol is not None else captured.get("last")
            if use is None:
                acc.count("default_solution_not_captured")
                continue
            flux = {rid: float(use.fluxes[rid]) for rid in rids}
            acc.ev()
            acc.count("model_summaries")
            if not judge_model_summary(acc, model, ms, flux, fva_frame if fkind != "none" else None, tol, ident, wrec):
                continue
            if not render_all(acc, ms, "model", ident):
                continue
            if any(abs(x) > tol for x in flux.values()):
                acc.nontrivial(sig, "model", skind, fkind)
            # ---------------------------------------------------------------- metabolites
            ok = True
            for met in model.metabolites:
                try:
                    with warnings.catch_warnings():
                        warnings.simplefilter("ignore")
                        s = met.summary(solution=sol, fva=fva_arg)
                except Exception as e:
                    acc.ev()
                    acc.violation(f"C20/metabolite/construct/{type(e).__name__}", f"{met.id}.summary raised {type(e).__name__}: {str(e)[:160]}", dict(ident, metabolite=met.id, start_recipe=wrec()))
                    ok = False
                    break
                use_m = sol if sol is not None else captured.get("last")
                fl = {rid: float(use_m.fluxes[rid]) for rid in rids}
                acc.ev()
                acc.count("metabolite_summaries")
                if not judge_metabolite_summary(acc, model, met, s, fl, fva_frame if fkind != "none" else None, tol, ident, wrec, steady=True):
                    ok = False
                    break
                if not render_all(acc, s, "metabolite", dict(ident, metabolite=met.id)):
                    ok = False
                    break
                if any(abs(fl[r.id]) > tol for r in met.reactions):
                    acc.nontrivial(sig, "metabolite", met.id, skind, fkind)
            if not ok:
                continue
            # ---------------------------------------------------------------- reactions
            for r in model.reactions:
                try:
                    with warnings.catch_warnings():
                        warnings.simplefilter("ignore")
                        s = r.summary(solution=sol, fva=fva_arg)
                except Exception as e:
                    acc.ev()
                    acc.violation(f"C20/reaction/construct/{type(e).__name__}", f"{r.id}.summary raised {type(e).__name__}: {str(e)[:160]}", dict(ident, reaction=r.id, start_recipe=wrec()))
                    break
                use_r = sol if sol is not None else captured.get("last")
                acc.ev()
                acc.count("reaction_summaries")
                fr_ = s.to_frame()
                x = float(use_r.fluxes[r.id])
                if list(fr_.index) != [r.id] or not close(float(fr_.at[r.id, "flux"]), x):
                    acc.violation("C20/reaction/flux", f"reaction summary of {r.id} shows {fr_.to_dict()}, solution flux {x}", dict(ident, reaction=r.id, start_recipe=wrec()))
                    break
                if fkind != "none":
                    lo, hi = float(fva_frame.at[r.id, "minimum"]), float(fva_frame.at[r.id, "maximum"])
                    if not (close(float(fr_.at[r.id, "minimum"]), lo) and close(float(fr_.at[r.id, "maximum"]), hi)):
                        acc.violation("C20/reaction/fva-range", f"reaction summary of {r.id}: range {fr_.at[r.id,'minimum']}, {fr_.at[r.id,'maximum']} vs FVA {lo}, {hi}", dict(ident, reaction=r.id))
                        break
                zero = abs(x) < tol
                if not render_all(acc, s, "reaction", dict(ident, reaction=r.id, zero_flux=zero, start_recipe=wrec())):
                    break
                if not zero:
                    acc.nontrivial(sig, "reaction", r.id, skind, fkind)
        finally:
            for mod, orig in taps:
                mod.pfba = orig
    if case < 2:
        acc.sample({"n_reactions": len(rids), "boundary": {r.id: {m.id: c for m, c in r.metabolites.items()} for r in model.boundary}, "solutions": sorted(sols)})


def scaled(value, tol):
    return 0.0 if abs(value) < tol else value


def judge_model_summary(acc, model, ms, flux, fva, tol, ident, wrec):
    w = lambda **k: dict(ident, **k, start_recipe=wrec())
    up, sec = ms.uptake_flux, ms.secretion_flux
    exp_up, exp_sec = {}, {}
    for r in model.boundary:
        (met, factor), = list(r.metabolites.items())
        val = scaled(flux[r.id] * factor, tol)
        row = {"flux": val, "metabolite": met.id, "factor": factor}
        if fva is not None:
            lo, hi = scaled(float(fva.at[r.id, "minimum"]), tol) * factor, scaled(float(fva.at[r.id, "maximum"]), tol) * factor
            if factor < 0:
                lo, hi = hi, lo
            row["minimum"], row["maximum"] = lo, hi
        if val > 0 or (val == 0 and factor > 0):
            exp_up[r.id] = row
        else:
            exp_sec[r.id] = row
    for name, frame, exp in (("uptake", up, exp_up), ("secretion", sec, exp_sec)):
        got_ids = list(frame["reaction"])
        if sorted(got_ids) != sorted(exp):
            dup = [x for x in set(got_ids) if got_ids.count(x) > 1]
            acc.violation(
                f"C20/model/{name}/wrong-reactions" + ("/duplicate" if dup else ""),
                f"{name} lists {sorted(got_ids)}, expected {sorted(exp)}",
                w(got=sorted(got_ids), expected=sorted(exp), fluxes={k: flux[k] for k in set(got_ids) | set(exp)}),
            )
            return False
        for _idx, row in frame.iterrows():
            e = exp[row["reaction"]]
            if row["metabolite"] != e["metabolite"] or not close(float(row["flux"]), e["flux"]):
                acc.violation(
                    f"C20/model/{name}/wrong-flux",
                    f"{name} of {row['reaction']}: shown {row['flux']} ({row['metabolite']}), solution flux x coefficient = {e['flux']} (factor {e['factor']})",
                    w(reaction=row["reaction"], shown=float(row["flux"]), expected=e["flux"], factor=e["factor"], solution_flux=flux[row["reaction"]]),
                )
                return False
            if fva is not None:
                if not (close(float(row["minimum"]), e["minimum"]) and close(float(row["maximum"]), e["maximum"])):
                    acc.violation(
                        f"C20/model/{name}/wrong-fva-range" + ("/negative-factor" if e["factor"] < 0 else ""),
                        f"{name} of {row['reaction']}: range [{row['minimum']}, {row['maximum']}], FVA x factor = [{e['minimum']}, {e['maximum']}]",
                        w(reaction=row["reaction"], factor=e["factor"]),
                    )
                    return False
    # objective value
    from cobra.util.solver import linear_reaction_coefficients

    cf = {r.id: k for r, k in linear_reaction_coefficients(model).items()}
    if cf:
        want = sum(k * flux[rid] for rid, k in cf.items())
        try:
            txt = ms.to_string()
            m = re.search(r"= (-?[0-9.eE+-]+|nan|inf)\s*$", txt.split("\n\n")[0].strip().splitlines()[-1])
            shown = float(m.group(1)) if m else None
        except Exception:
            shown = None
        if shown is None:
            shown = getattr(ms, "_objective_value", None)
        if shown is None:
            acc.count("objective_value_not_observable")
        elif not close(float(shown), want):
            acc.violation("C20/model/objective-value", f"summary reports objective value {shown}, the solution gives {want}", w(shown=float(shown), expected=want))
            return False
    return True


def judge_metabolite_summary(acc, model, met, s, flux, fva, tol, ident, wrec, steady):
    w = lambda **k: dict(ident, metabolite=met.id, **k, start_recipe=wrec())
    exp_p, exp_c = {}, {}
    for r in met.reactions:
        factor = r.metabolites[met]
        val = scaled(flux[r.id] * factor, tol)
        row = {"flux": val, "factor": factor}
        if fva is not None:
            lo, hi = scaled(float(fva.at[r.id, "minimum"]), tol) * factor, scaled(float(fva.at[r.id, "maximum"]), tol) * factor
            if factor < 0:
                lo, hi = hi, lo
            row["minimum"], row["maximum"] = lo, hi
        if val > 0 or (val == 0 and factor > 0):
            exp_p[r.id] = row
        else:
            exp_c[r.id] = row
    for name, frame, exp in (("producing", s.producing_flux, exp_p), ("consuming", s.consuming_flux, exp_c)):
        got_ids = list(frame["reaction"])
        if sorted(got_ids) != sorted(exp):
            acc.violation(f"C20/metabolite/{name}/wrong-reactions", f"{met.id} {name}: lists {sorted(got_ids)}, expected {sorted(exp)}", w(got=sorted(got_ids), expected=sorted(exp)))
            return False
        for _i, row in frame.iterrows():
            e = exp[row["reaction"]]
            if not close(float(row["flux"]), e["flux"]):
                acc.violation(f"C20/metabolite/{name}/wrong-flux", f"{met.id} {name} {row['reaction']}: shown {row['flux']}, flux x coefficient = {e['flux']}", w(reaction=row["reaction"], factor=e["factor"]))
                return False
            if fva is not None and not (close(float(row["minimum"]), e["minimum"]) and close(float(row["maximum"]), e["maximum"])):
                acc.violation(
                    f"C20/metabolite/{name}/wrong-fva-range" + ("/negative-factor" if e["factor"] < 0 else ""),
                    f"{met.id} {name} {row['reaction']}: range [{row['minimum']}, {row['maximum']}], FVA x factor = [{e['minimum']}, {e['maximum']}]",
                    w(reaction=row["reaction"], factor=e["factor"]),
                )
                return False
        total = sum(abs(e["flux"]) for e in exp.values())
        if total > 0:
            ps = float(frame["percent"].sum())
            if abs(ps - 1.0) > 1e-9:
                acc.violation(f"C20/metabolite/{name}/percent-sum", f"{met.id}: {name} percentages sum to {ps}", w())
                return False
            for _i, row in frame.iterrows():
                if not close(float(row["percent"]), abs(exp[row["reaction"]]["flux"]) / total):
                    acc.violation(f"C20/metabolite/{name}/percent", f"{met.id} {row['reaction']}: percent {row['percent']}", w())
                    return False
    if steady:
        tp = sum(e["flux"] for e in exp_p.values())
        tc = sum(e["flux"] for e in exp_c.values())
        shown_p = float(s.producing_flux["flux"].sum())
        shown_c = float(s.consuming_flux["flux"].sum())
        scale = max(1.0, abs(shown_p))
        if abs(shown_p + shown_c) > 1e-5 * scale:
            acc.violation("C20/metabolite/totals-do-not-balance", f"{met.id}: producing total {shown_p}, consuming total {shown_c}", w())
            return False
    return True


def run_shard(desc, acc):
    first = desc.get("first", 0)
    for case in range(first, first + desc["cases"]):
        run_case(desc["base"], case, acc)
        acc.checkpoint()


def replay(w, acc):
    run_case(w["base"], w["case"], acc)
