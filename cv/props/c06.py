"""C06 - deletion analyses report the optimum of each knocked-out model.

Oracle: for every expected unordered combination the reactions to silence are derived
(for genes from the generator's own rule trees), the knocked-out flux-balance problem is
solved exactly, and the row's growth/status are compared.  Row bookkeeping: the multiset
of `ids` must equal the set of expected combinations, each exactly once.  Linear MOMA:
the reported growth must lie in the exact interval of the original objective over all
minimal-adjustment solutions.
"""
import itertools
import math
import warnings

from cv import gen, oracles
from cv.acc import h
from cv.exactlp import fr

PROPERTY = "C06"
LEVEL = "exploration"
RULE = (
    "case = one deletion call (single/double x gene/reaction x fba/linear moma x processes "
    "1/2/4 x lists as objects/ids/partial/with repeats between the two lists) or one "
    "find_essential_* call on a generated model with 2-7 genes and every rule shape; every "
    "row is compared with the exact optimum of the independently knocked-out problem.  "
    "Non-trivial when >=1 row differs from the wild type; distinct by (model hash, arguments)."
    " References for linear MOMA: FBA vertex, pFBA, or the optimum of a random objective; half of them with their Series in another index order."  # third-session additions
)
ASSUMPTIONS = [
    "growth compared with 1e-6*max(1,|q|); essentiality thresholds within 1e-4 relative of an exact growth are borderline-skipped",
    "linear MOMA growth is judged against the exact interval over all minimisers (the minimiser is not unique)",
    "finite bounds (no unbounded knock-outs)",
]
REACH = [
    "flux_analysis/deletion.py:_multi_deletion",
    "flux_analysis/deletion.py:_gene_deletion",
    "flux_analysis/deletion.py:_reaction_deletion",
    "flux_analysis/deletion.py:_get_growth",
    "flux_analysis/deletion.py:_element_lists",
    "flux_analysis/deletion.py:KnockoutAccessor.__getitem__",
    "flux_analysis/variability.py:find_essential_genes",
    "flux_analysis/variability.py:find_essential_reactions",
    "flux_analysis/moma.py:add_moma",
]
TOL = 1e-6


def minimums(tier):
    return {
        "evaluations": 2000,
        "distinct_nontrivial": 100,
        "counters": {"deletion_calls": 150, "rows_checked": 2000, "moma_rows_checked": 150, "essential_calls": 40, "multiprocess_calls": 30, "rows_without_optimum": 30},
        "sets": {"call_kinds": 4},
    }


def plan(tier, seed):
    n = 16 if tier == "quick" else 64
    per = 16 if tier == "quick" else 110
    return [{"cases": per, "base": seed * 1000003 + k} for k in range(n)]


def near(x, q):
    q = float(q)
    return abs(x - q) <= TOL * max(1.0, abs(q))


def silenced_by_genes(rules, absent):
    return {rid for rid, t in rules.items() if t is not None and not gen.gpr_eval(t, absent)}


def exact_growth(model, knocked, cache):
    key = frozenset(knocked)
    if key not in cache:
        P = oracles.Problem(model, knocked=key)
        cache[key] = (P.optimum(), P)
    return cache[key]


def run_case(base, case, acc):
    from cobra.flux_analysis import (
        double_gene_deletion,
        double_reaction_deletion,
        find_essential_genes,
        find_essential_reactions,
        single_gene_deletion,
        single_reaction_deletion,
    )

    rng = gen.rng_for("C06", base, case)
    ngenes = rng.randint(2, 7)
    rec = gen.network(rng, size=rng.randint(1, 2), genes=ngenes, finite=True)
    lab, res = gen.classify(rec)
    if lab["status"] != "optimal":
        acc.count("skipped_no_optimum")
        return
    with warnings.catch_warnings():
        warnings.simplefilter("ignore")
        model = gen.build(rec)
    rules = {d["id"]: gen._tuplify(d["gpr"]) for d in rec["rxns"]}
    cache = {}
    genes = [g.id for g in model.genes]
    rxns = [r.id for r in model.reactions]
    wt = res.obj
    ident0 = {"base": base, "case": case, "optimum": float(wt), "direction": rec["direction"]}
    for call in range(4):
        kind = rng.choice(["single_gene", "double_gene", "single_reaction", "double_reaction", "essential"])
        if kind.endswith("gene") and not genes:
            continue
        method = rng.choice(["fba", "fba", "fba", "linear moma"])
        procs = rng.choice([1, 1, 2, 4])
        acc.add("call_kinds", kind)
        ident = dict(ident0, call=call, kind=kind, method=method, processes=procs)
        acc.journal(dict(ident, about_to_run=kind))
        if kind == "essential":
            run_essential(acc, rng, model, rules, cache, wt, rec, ident, find_essential_genes, find_essential_reactions)
            continue
        pool = genes if kind.endswith("gene") else rxns
        objs = model.genes if kind.endswith("gene") else model.reactions

        def pick_list():
            form = rng.choice(["None", "ids", "objects", "partial-ids", "partial-objects"])
            if form == "None":
                return None, list(pool), form
            k = len(pool) if not form.startswith("partial") else rng.randint(1, len(pool))
            sub = rng.sample(pool, k)
            if form.endswith("objects"):
                return [objs.get_by_id(i) for i in sub], sub, form
            return list(sub), sub, form

        l1, ids1, f1 = pick_list()
        if kind.startswith("double"):
            l2, ids2, f2 = pick_list()
            if l2 is None:
                ids2 = ids1  # documented: second list defaults to the first
            expected = {frozenset(c) for c in itertools.product(ids1, ids2)}
        else:
            l2, ids2, f2 = None, None, None
            expected = {frozenset([i]) for i in ids1}
        ident["lists"] = [f1, f2, len(expected)]
        ref = None
        ref_flux = None
        kw = {}
        if method == "linear moma":
            refkind = rng.choice(["fba", "pfba", "other", "other"])
            if refkind == "other":
                # any flux distribution may serve as reference: one that is neither the FBA vertex nor
                # the pFBA default shows whether the caller's reference is the one that is used
                ref = gen.other_reference(model, rng)
                if ref is None:
                    refkind = "fba"
            if refkind == "fba":
                ref = model.optimize()
            elif refkind == "pfba":
                from cobra.flux_analysis import pfba

                ref = pfba(model)
            if rng.random() < 0.5:
                ref = gen.reordered_solution(ref, rng)
                refkind += "/reordered"
                acc.count("references_in_another_index_order")
            ref_flux = {rid: float(ref.fluxes[rid]) for rid in rxns}
            kw["solution"] = ref
            ident["reference"] = refkind
        fn = {"single_gene": single_gene_deletion, "double_gene": double_gene_deletion, "single_reaction": single_reaction_deletion, "double_reaction": double_reaction_deletion}[kind]
        if procs > 1:
            acc.count("multiprocess_calls")
        try:
            with warnings.catch_warnings():
                warnings.simplefilter("ignore")
                if kind.startswith("double"):
                    df = fn(model, l1, l2, method=method, processes=procs, **kw)
                else:
                    df = fn(model, l1, method=method, processes=procs, **kw)
        except Exception as e:
            acc.ev()
            acc.violation(f"C06/{kind}/raised/{type(e).__name__}", f"{kind}({method}) raised {type(e).__name__}: {str(e)[:200]}", dict(ident, start_recipe=rec))
            continue
        acc.count("deletion_calls")
        acc.ev()
        # ---- bookkeeping: exactly one row per unordered combination
        got = [frozenset(x) for x in df["ids"]]
        if sorted(map(sorted, got)) != sorted(map(sorted, expected)):
            missing = [sorted(x) for x in expected if x not in got][:4]
            extra = [sorted(x) for x in set(got) if x not in expected][:4]
            dup = [sorted(x) for x in set(got) if got.count(x) > 1][:4]
            acc.violation(
                f"C06/{kind}/rows/" + ("duplicate" if dup else ("missing" if missing else "extra")),
                f"{kind}: rows do not match the requested combinations (missing {missing}, extra {extra}, duplicated {dup})",
                dict(ident, missing=missing, extra=extra, duplicated=dup, start_recipe=rec),
            )
            continue
        nontrivial = False
        for ids, growth, status in zip(got, df["growth"], df["status"]):
            knocked = silenced_by_genes(rules, set(ids)) if kind.endswith("gene") else set(ids)
            ex, P = exact_growth(model, knocked, cache)
            acc.ev()
            acc.count("rows_checked")
            w = lambda **k: dict(ident, row=sorted(ids), silenced=sorted(knocked), growth=None if growth != growth else growth, status=status, start_recipe=rec, **k)
            if method == "fba":
                if ex.status == "optimal":
                    if status != "optimal" or growth != growth or not near(growth, ex.obj):
                        acc.violation(f"C06/{kind}/fba/wrong-growth", f"deleting {sorted(ids)}: growth {growth} ({status}), exact optimum {float(ex.obj)}", w(exact=float(ex.obj)))
                        break
                    if ex.obj != wt:
                        nontrivial = True
                else:
                    acc.count("rows_without_optimum")
                    nontrivial = True
                    if status == "optimal" or growth == growth:
                        acc.violation(f"C06/{kind}/fba/growth-reported-although-{ex.status}", f"deleting {sorted(ids)}: growth {growth} ({status}) but the knocked-out problem is {ex.status}", w(exact_status=ex.status))
                        break
            else:
                acc.count("moma_rows_checked")
                m = oracles.moma_exact(P, ref_flux)
                if m is None:
                    acc.count("rows_without_optimum")
                    if status == "optimal":
                        acc.violation(f"C06/{kind}/moma/status-optimal-although-infeasible", f"deleting {sorted(ids)}: status optimal but the knocked-out problem is infeasible", w())
                        break
                    if growth == growth:
                        acc.violation(f"C06/{kind}/moma/growth-reported-although-infeasible", f"deleting {sorted(ids)}: growth {growth} ({status}) although the knocked-out problem has no solution (NaN expected, as for fba)", w())
                        break
                    continue
                D, gmin, gmax = m
                if status != "optimal" or growth != growth:
                    acc.violation(f"C06/{kind}/moma/no-growth-although-feasible", f"deleting {sorted(ids)}: growth {growth} ({status}) but a minimal-adjustment solution exists", w(interval=[float(gmin), float(gmax)]))
                    break
                slack = TOL * max(1.0, abs(float(gmin)), abs(float(gmax)))
                if not (float(gmin) - slack <= growth <= float(gmax) + slack):
                    acc.violation(
                        f"C06/{kind}/moma/growth-outside-minimal-adjustment-interval",
                        f"deleting {sorted(ids)}: reported growth {growth}, the objective over all minimal-adjustment solutions ranges over [{float(gmin)}, {float(gmax)}]",
                        w(interval=[float(gmin), float(gmax)], distance=float(D)),
                    )
                    break
                if knocked:
                    nontrivial = True
        else:
            # knockout accessor returns the same rows
            if len(got):
                pick = rng.choice(sorted(map(sorted, got)))
                try:
                    sel = df.knockout[set(pick)] if len(pick) > 1 else df.knockout[pick[0]]
                    acc.ev()
                    if len(sel) != 1 or frozenset(sel["ids"].iloc[0]) != frozenset(pick):
                        acc.violation(f"C06/knockout-accessor/wrong-rows", f"df.knockout[{pick}] returned {len(sel)} rows", dict(ident, pick=pick))
                except Exception as e:
                    acc.violation(f"C06/knockout-accessor/raised/{type(e).__name__}", f"df.knockout[{pick}] raised {e}", dict(ident, pick=pick))
        if nontrivial:
            acc.nontrivial(gen.recipe_sig(rec), kind, method, procs, h(ident["lists"]))
    if case < 2:
        acc.sample({"n_reactions": len(rxns), "genes": genes, "rules": {k: gen.gpr_text(v) for k, v in rules.items() if v is not None}, "optimum": float(wt)})


def run_essential(acc, rng, model, rules, cache, wt, rec, ident, feg, fer):
    if rec["direction"] != "max" or wt <= 0:
        acc.count("essential_skipped_not_max_positive")
        return
    which = rng.choice(["genes", "reactions"])
    thr = rng.choice([None, None, float(wt) * 0.5, float(wt) * 0.999, 0.0])
    procs = rng.choice([1, 2])
    ident = dict(ident, which=which, threshold=thr, processes=procs)
    try:
        with warnings.catch_warnings():
            warnings.simplefilter("ignore")
            got = (feg if which == "genes" else fer)(model, threshold=thr, processes=procs)
    except Exception as e:
        acc.ev()
        acc.violation(f"C06/find_essential_{which}/raised/{type(e).__name__}", f"raised {type(e).__name__}: {str(e)[:200]}", dict(ident, start_recipe=rec))
        return
    acc.count("essential_calls")
    acc.ev()
    t = float(wt) * 0.01 if thr is None else thr
    want, borderline = set(), set()
    items = [g.id for g in model.genes] if which == "genes" else [r.id for r in model.reactions]
    for i in items:
        knocked = silenced_by_genes(rules, {i}) if which == "genes" else {i}
        ex, _P = exact_growth(model, knocked, cache)
        if ex.status != "optimal":
            want.add(i)
        else:
            q = float(ex.obj)
            if abs(q - t) <= 1e-4 * max(1.0, abs(t)):
                borderline.add(i)
            elif q < t:
                want.add(i)
    gotids = {x.id for x in got}
    if borderline:
        acc.count("essential_borderline_items_skipped", len(borderline))
    if (gotids - borderline) != (want - borderline):
        acc.violation(
            f"C06/find_essential_{which}/wrong-set",
            f"find_essential_{which}(threshold={thr}) returned {sorted(gotids)}, expected {sorted(want)}",
            dict(ident, got=sorted(gotids), expected=sorted(want), start_recipe=rec),
        )
    if want and len(want) < len(items):
        acc.nontrivial(gen.recipe_sig(rec), "essential", which, thr, procs)


def run_shard(desc, acc):
    first = desc.get("first", 0)
    for case in range(first, first + desc["cases"]):
        run_case(desc["base"], case, acc)
        acc.checkpoint()


def replay(w, acc):
    run_case(w["base"], w["case"], acc)
