"""C07 - knocking out genes disables exactly the reactions whose rule becomes false.

Oracle: truth table from the generator's own and/or tree.  For models with <= 6 genes
all subsets are knocked out, subsets of <= 4 genes in all orders (exhaustive, flagged),
through Gene.knock_out, knock_out_model_genes (objects / ids / indices) and
Reaction.knock_out, inside and outside a context; after every single knock-out the
bounds of every reaction, gene.functional, reaction.functional and the solver's
variable bounds are compared with the expectation.
"""
import itertools
import warnings

from cv import gen, observe

PROPERTY = "C07"
LEVEL = "exploration"
RULE = (
    "case = one knock-out sequence (subset of genes x order x API form x inside/outside a "
    "context) on a generated model with 1-6 genes and 3-20 reactions; for every model all "
    "gene subsets are enumerated, and all orders for subsets of <=4 genes.  Non-trivial when "
    ">=1 reaction changes bounds and >=1 reaction with a rule keeps them; distinct by "
    "(rule-set hash, gene order, form)."
    " In 5 of 8 models something happened before the knock-outs (trial knock-outs / a reaction removed / a gene renamed inside a context that was left, or remove_genes / rename_genes rewriting the rules in place after they had been evaluated); the oracle's trees are rewritten accordingly."  # third-session additions
)
ASSUMPTIONS = ["reactions that already have bounds (0, 0) are judged by 'keeps its bounds'"]
REACH = [
    "core/gene.py:Gene.knock_out",
    "core/reaction.py:Reaction.functional",
    "core/reaction.py:Reaction.knock_out",
    "manipulation/delete.py:knock_out_model_genes",
]


def EXHAUSTIVE(tier):
    return "per generated model: every subset of its genes, and every order of every subset with <= 4 genes"


def minimums(tier):
    return {
        "evaluations": 3000,
        "distinct_nontrivial": 300,
        "counters": {"steps_checked": 5000, "sequences_in_context": 200, "reaction_knock_outs": 100, "solver_bound_checks": 5000},
        "sets": {"forms": 4},
    }


def plan(tier, seed):
    n = 16
    per = 14 if tier == "quick" else 120
    return [{"cases": per, "base": seed * 1000003 + k} for k in range(n)]


def expected_state(rec_rules, orig_bounds, knocked, reaction_ko=()):
    out = {}
    for rid, tree in rec_rules.items():
        if rid in reaction_ko:
            out[rid] = (0, 0)
        elif tree is not None and not gen.gpr_eval(tree, knocked):
            out[rid] = (0, 0)
        else:
            out[rid] = orig_bounds[rid]
    return out


def compare(acc, model, rules, orig_bounds, knocked, reaction_ko, ctx, what):
    acc.ev()
    acc.count("steps_checked")
    exp = expected_state(rules, orig_bounds, knocked, reaction_ko)
    for r in model.reactions:
        e = exp[r.id]
        if tuple(r.bounds) != tuple(e):
            kind = "disabled-although-rule-true" if tuple(r.bounds) == (0, 0) else ("not-disabled-although-rule-false" if tuple(e) == (0, 0) else "bounds-changed")
            acc.violation(
                f"C07/{what}/{kind}",
                f"after knocking out {sorted(knocked)} ({what}) reaction {r.id} with rule {r.gene_reaction_rule!r} has bounds {r.bounds}, expected {e}",
                dict(ctx, reaction=r.id, rule=r.gene_reaction_rule, got=list(r.bounds), expected=list(e), knocked=sorted(knocked)),
            )
            return False
        tree = rules[r.id]
        want_functional = gen.gpr_eval(tree, knocked)
        if bool(r.functional) != want_functional:
            acc.violation(
                f"C07/{what}/reaction.functional",
                f"reaction {r.id}.functional is {r.functional} with {sorted(knocked)} knocked out, rule {r.gene_reaction_rule!r} evaluates to {want_functional}",
                dict(ctx, reaction=r.id, knocked=sorted(knocked)),
            )
            return False
    for g in model.genes:
        if g.functional != (g.id not in knocked):
            acc.violation(f"C07/{what}/gene.functional", f"gene {g.id}.functional is {g.functional} with {sorted(knocked)} knocked out", dict(ctx, gene=g.id, knocked=sorted(knocked)))
            return False
    # the solver must follow
    raw = observe.raw_lp(model)
    acc.count("solver_bound_checks")
    probs = [p for p in observe.fba_problems(model, raw=raw, core_only=True, check_objective=False) if ": bounds" in p or "variable pair" in p]
    if probs:
        acc.violation(f"C07/{what}/solver-bounds", f"solver variable bounds do not follow the knock-out: {probs[0]}", dict(ctx, knocked=sorted(knocked), problems=probs[:4]))
        return False
    return True


def run_case(base, case, acc):
    from cobra.manipulation import knock_out_model_genes

    rng = gen.rng_for("C07", base, case)
    ngenes = rng.randint(1, 6)
    pool = rng.sample(gen.PLAIN_IDS + gen.AWKWARD_IDS[:12], ngenes)
    rec = gen.network(rng, size=rng.randint(1, 3), genes=ngenes, gene_ids=pool)
    with warnings.catch_warnings():
        warnings.simplefilter("ignore")
        model = gen.build(rec)
    rules = {d["id"]: gen._tuplify(d["gpr"]) for d in rec["rxns"]}
    orig = {r.id: tuple(r.bounds) for r in model.reactions}
    genes = sorted(g.id for g in model.genes)
    # what happened to the model before the knock-outs: nothing, or something that must not matter (a trial knock-out,
    # a reaction removed or a gene renamed inside a context that has been left), or an in-place rewrite of the rules
    # (remove_genes / rename_genes) after the rules had already been evaluated for the same knock-out sets
    pre = rng.choice([None, None, None, "trial-knock-outs", "temporary-reaction-removal", "temporary-renaming", "remove-gene-in-place", "rename-gene-in-place"]) if genes else None
    pre_gene = rng.choice(genes) if genes else None
    genes0 = list(genes)
    acc.add("prehistories", str(pre))

    def apply_pre(mdl):
        from cobra.manipulation import remove_genes, rename_genes

        if pre is None:
            return
        with warnings.catch_warnings():
            warnings.simplefilter("ignore")
            if pre in ("trial-knock-outs", "remove-gene-in-place", "rename-gene-in-place"):
                for g in genes0:
                    with mdl:
                        mdl.genes.get_by_id(g).knock_out()
                        [r.functional for r in mdl.reactions]
                with mdl:
                    knock_out_model_genes(mdl, genes0[: max(1, len(genes0) // 2)])
                    [r.functional for r in mdl.reactions]
            if pre == "temporary-reaction-removal":
                cand = [r for r in mdl.reactions if r.gene_reaction_rule]
                if cand:
                    with mdl:
                        mdl.remove_reactions(rng.sample(cand, min(2, len(cand))))
            elif pre == "temporary-renaming":
                with mdl:
                    rename_genes(mdl, {pre_gene: pre_gene + "_tmp"})
            elif pre == "remove-gene-in-place":
                remove_genes(mdl, [pre_gene], remove_reactions=False)
            elif pre == "rename-gene-in-place":
                rename_genes(mdl, {pre_gene: pre_gene + "_new"})

    def _strip(t, gone):
        """The rule with the genes in `gone` absent for good; False when nothing is left that could be true."""
        if t is None:
            return None
        if isinstance(t, str):
            return False if t in gone else t
        op_, kids = t
        ks = [_strip(k, gone) for k in kids]
        if op_ == "and":
            if any(k is False for k in ks):
                return False
            return ks[0] if len(ks) == 1 else ("and", ks)
        ks = [k for k in ks if k is not False]
        if not ks:
            return False
        return ks[0] if len(ks) == 1 else ("or", ks)

    def _rename(t, a, b):
        if t is None or isinstance(t, str):
            return b if t == a else t
        return (t[0], [_rename(k, a, b) for k in t[1]])

    if pre == "remove-gene-in-place":
        # a reaction that cannot be catalysed any more keeps its place with an empty rule (remove_reactions=False):
        # "a reaction without a rule is never affected"
        rules = {rid: (None if _strip(t, {pre_gene}) is False else _strip(t, {pre_gene})) for rid, t in rules.items()}
        genes = [g for g in genes if g != pre_gene]
    elif pre == "rename-gene-in-place":
        rules = {rid: _rename(t, pre_gene, pre_gene + "_new") for rid, t in rules.items()}
        genes = sorted((pre_gene + "_new") if g == pre_gene else g for g in genes)
    apply_pre(model)
    if pre is not None:
        acc.count("models_with_a_prehistory")
        if not compare(acc, model, rules, orig, set(), (), {"base": base, "case": case, "prehistory": pre, "gene": pre_gene}, "after-prehistory"):
            return
    ident = {"base": base, "case": case, "prehistory": pre, "prehistory_gene": pre_gene, "rules": {k: gen.gpr_text(v) for k, v in rules.items() if v is not None}}
    nseq = 0
    copied_first = rng.random() < 0.3
    if copied_first and len(model.reactions):
        # object-level copies taken beforehand (Reaction.copy, *, +) must leave the model's
        # genes attached: a later knock-out inside a context has to be undone on exit
        for r in rng.sample(list(model.reactions), min(3, len(model.reactions))):
            _c = r.copy() if rng.random() < 0.5 else (r * 2 if rng.random() < 0.5 else r + r)
        acc.count("models_with_reactions_copied_beforehand")
    for k in range(0, len(genes) + 1):
        for subset in itertools.combinations(genes, k):
            orders = list(itertools.permutations(subset)) if k <= 4 else [subset, tuple(reversed(subset))]
            if k == 4 and len(orders) > 8:
                orders = rng.sample(orders, 8) if rng.random() < 0.7 else orders
            for order in orders:
                form = rng.choice(["Gene.knock_out", "knock_out_model_genes:objects", "knock_out_model_genes:ids", "knock_out_model_genes:indices", "mixed", "mixed"])
                in_ctx = rng.random() < 0.5
                acc.add("forms", form)
                ctx = dict(ident, order=list(order), form=form, in_context=in_ctx)
                ok = True
                m = model
                if in_ctx:
                    m.__enter__()
                    acc.count("sequences_in_context")
                try:
                    knocked = set()
                    if form == "mixed":
                        # every gene (or chunk of genes) goes through a route of its own:
                        # earlier knock-outs must stay in force whatever the later route,
                        # also for a gene flagged non-functional beforehand and across a
                        # copy of the model taken in between
                        todo = list(order)
                        while todo and ok:
                            route = rng.choice(["Gene.knock_out", "kmg:one-id", "kmg:one-object", "kmg:chunk", "flag-then-knock_out", "copy-then-Gene.knock_out"])
                            acc.add("mixed_routes", route)
                            if route == "copy-then-Gene.knock_out":
                                if in_ctx:
                                    # the copy is taken while the original's context is open;
                                    # leaving that context afterwards must not reach the copy
                                    owner = m
                                    m = owner.copy()
                                    owner.__exit__(None, None, None)
                                    in_ctx = False
                                    acc.count("copies_taken_inside_an_open_context")
                                else:
                                    m = m.copy()
                                acc.count("copies_between_knock_outs")
                                ok = compare(acc, m, rules, orig, knocked, (), dict(ctx, route=route), "Model.copy-between-knock-outs")
                                if not ok:
                                    break
                                route = "Gene.knock_out"
                            if route == "kmg:chunk":
                                chunk = [todo.pop(0) for _ in range(min(len(todo), rng.randint(1, 3)))]
                            else:
                                chunk = [todo.pop(0)]
                            if route == "Gene.knock_out":
                                m.genes.get_by_id(chunk[0]).knock_out()
                            elif route == "flag-then-knock_out":
                                g = m.genes.get_by_id(chunk[0])
                                g.functional = False
                                g.knock_out()
                            else:
                                arg = [m.genes.get_by_id(g) for g in chunk] if route == "kmg:one-object" else list(chunk)
                                ret = knock_out_model_genes(m, arg)
                            knocked |= set(chunk)
                            ok = compare(acc, m, rules, orig, knocked, (), dict(ctx, route=route, chunk=chunk), "mixed-routes")
                            if ok and route.startswith("kmg"):
                                acc.ev()
                                want = {r.id for r in m.reactions if rules[r.id] is not None and not gen.gpr_eval(rules[r.id], knocked) and ({g.id for g in r.genes} & set(chunk))}
                                got = {r.id for r in ret}
                                if got != want:
                                    ok = False
                                    acc.violation("C07/knock_out_model_genes/returned-list", f"knock_out_model_genes({chunk}) after {sorted(knocked - set(chunk))} returned {sorted(got)}, reactions of these genes whose rule is false: {sorted(want)}", dict(ctx, got=sorted(got), expected=sorted(want), chunk=chunk))
                    elif form == "Gene.knock_out":
                        for gid in order:
                            m.genes.get_by_id(gid).knock_out()
                            knocked.add(gid)
                            ok = compare(acc, m, rules, orig, knocked, (), ctx, form)
                            if not ok:
                                break
                    else:
                        if form.endswith("objects"):
                            arg = [m.genes.get_by_id(g) for g in order]
                        elif form.endswith("ids"):
                            arg = list(order)
                        else:
                            arg = [m.genes.index(g) for g in order]
                        ret = knock_out_model_genes(m, arg)
                        knocked = set(order)
                        ok = compare(acc, m, rules, orig, knocked, (), ctx, "knock_out_model_genes")
                        if ok:
                            acc.ev()
                            want = {r.id for r in m.reactions if rules[r.id] is not None and not gen.gpr_eval(rules[r.id], knocked) and ({g.id for g in r.genes} & knocked)}
                            got = {r.id for r in ret}
                            if got != want:
                                ok = False
                                acc.violation("C07/knock_out_model_genes/returned-list", f"knock_out_model_genes returned {sorted(got)}, reactions whose rule became false: {sorted(want)}", dict(ctx, got=sorted(got), expected=sorted(want)))
                    # add a reaction knock-out on top
                    if ok and rng.random() < 0.25 and len(m.reactions):
                        r = rng.choice(list(m.reactions))
                        r.knock_out()
                        acc.count("reaction_knock_outs")
                        ok = compare(acc, m, rules, orig, knocked, (r.id,), ctx, "Reaction.knock_out")
                    changed = any(rules[r] is not None and not gen.gpr_eval(rules[r], knocked) and orig[r] != (0, 0) for r in rules)
                    kept = any(rules[r] is not None and gen.gpr_eval(rules[r], knocked) for r in rules)
                    if changed and kept:
                        acc.nontrivial(gen.recipe_sig(ident["rules"]), order, form)
                finally:
                    if in_ctx:
                        m.__exit__(None, None, None)
                if not ok:
                    return
                if in_ctx:
                    if not compare(acc, model, rules, orig, set(), (), ctx, "after-context-exit"):
                        return
                else:
                    # outside a context: start again from a fresh build
                    with warnings.catch_warnings():
                        warnings.simplefilter("ignore")
                        model = gen.build(rec)
                    apply_pre(model)
                    if copied_first and len(model.reactions):
                        for r in list(model.reactions)[:3]:
                            _c = r.copy()
                nseq += 1
    acc.count("sequences", nseq)
    acc.count("models")
    if case < 2:
        acc.sample({"genes": genes, "rules": ident["rules"], "sequences": nseq})


def run_shard(desc, acc):
    for case in range(desc["cases"]):
        run_case(desc["base"], case, acc)
        acc.checkpoint()


def replay(w, acc):
    run_case(w["base"], w["case"], acc)
