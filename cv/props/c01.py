"""C01 - the solver always holds exactly the model's flux-balance problem.

Monitor shape: invariant at quiescent points.  After every step of a seeded history
of public operations (also steps that raised, context enter/exit, copies, pickles,
merges and solver switches) the raw GLPK problem is read back with swiglpk and
compared with the flux-balance problem implied by the Python-side data (S2) plus the
ledger of things the history added explicitly.
"""
import re

from cv import gen, hist, observe, ops
from cv.acc import h

import os

VERBOSE = bool(os.environ.get("CV_VERBOSE"))
PROPERTY = "C01"
LEVEL = "exploration"
RULE = (
    "case = one checked step of a seeded history (1-25 catalogue operations incl. failing "
    "forms, nested contexts, copy/deepcopy/pickle/merge, glpk<->glpk_exact) started from an "
    "empty, generated, mini or textbook model; dense histories are checked after every "
    "step, sparse ones only at the end.  Non-trivial when the step changed the raw LP or "
    "raised; distinct by (operation, raw-LP hash after the step)."
    " Failing forms also cover identifiers beyond the solver's name length, colliding names in add_cons_vars, repeated entries, foreign reactions in objective dictionaries; detached.copy. Second workload: the repository's tests with the core invariant at every solver.optimize()."  # third-session additions
)
ASSUMPTIONS = [
    "columns/rows are matched through the public accessors forward_variable/reverse_variable/constraint",
    "numbers compared with relative tolerance 1e-12 (GLPK text round trip in copy/pickle keeps 15 digits)",
    "after add_pfba/add_moma/add_room (documented to replace the objective) the objective clause is "
    "checked as optlang-view == raw GLPK only, until an FBA objective is set again",
]
REACH = [
    "core/model.py:Model._populate_solver",
    "core/reaction.py:Reaction.update_variable_bounds",
    "core/reaction.py:Reaction.add_metabolites",
    "core/model.py:Model.remove_reactions",
    "core/model.py:Model.remove_metabolites",
    "core/reaction.py:Reaction._set_id_with_model",
    "core/metabolite.py:Metabolite._set_id_with_model",
    "util/solver.py:set_objective",
    "core/model.py:Model.copy",
    "core/model.py:Model.__getstate__",
    "core/model.py:Model.__exit__",
]


def minimums(tier):
    return {
        "evaluations": 3000,
        "distinct_nontrivial": 1500,
        "counters": {"steps_raised": 100, "ctx_exit_steps": 50, "copies": 20, "solver_switches": 20},
        "sets": {"op_kinds": 35, "solver_switch_forms": 3},
    }


def plan(tier, seed):
    n = 16 if tier == "quick" else 64
    per = 110 if tier == "quick" else 500
    return [{"cases": per, "base": seed * 1000003 + k} for k in range(n)]


def _class_of(problem):
    for pat, cls in (
        (r"^reaction .*: bounds", "bounds"),
        (r"negative lower bound", "bounds"),
        (r"^reaction .*: column missing", "missing-column"),
        (r"^reaction .*: no solver variables", "missing-column"),
        (r"^metabolite .*: row missing", "missing-row"),
        (r"^metabolite .*: no solver constraint", "missing-row"),
        (r"^metabolite .*: stoichiometry", "coefficient"),
        (r"^metabolite .*: row bounds", "row-bounds"),
        (r"^solver column", "extra-column"),
        (r"^solver row", "extra-row"),
        (r"^objective direction", "direction"),
        (r"^objective", "objective"),
        (r"objective_coefficient", "objective"),
        (r"^duplicate", "duplicate-names"),
        (r"non-continuous", "column-kind"),
        (r"^view", "optlang-view"),
    ):
        if re.search(pat, problem):
            return cls
    return "other"


def _exact_copy_mechanism(H, exc):
    """Proves the optlang mechanism behind a failing context exit: the model uses the
    glpk_exact interface, but (after Model.copy/deepcopy/pickle) its variables and
    constraints are instances of the *glpk* interface classes, so the undo step that
    re-adds a removed row/column is rejected by optlang with exactly this TypeError."""
    if not isinstance(exc, TypeError):
        return False
    msg = str(exc)
    if "of interface type optlang.glpk_interface to model of type optlang.glpk_exact_interface" not in msg:
        return False
    try:
        s = H.model.solver
        return type(s).__module__ == "optlang.glpk_exact_interface"
    except Exception:
        return False


def check_model(H):
    """All S2 discrepancies for the current state."""
    raw = observe.raw_lp(H.model)
    probs = observe.fba_problems(H.model, ledger=H.ledger, raw=raw, check_objective=not H.custom_obj[-1])
    return probs, raw


def view_problems(model, raw):
    """optlang view == raw GLPK (cheap parts: names, bounds, objective direction; the
    objective coefficients through optlang's own accessor)."""
    out = []
    v = observe.optlang_view(model)
    if set(v["cols"]) != set(raw["cols"]):
        out.append(f"view: variable names differ from GLPK columns: {sorted(set(v['cols']) ^ set(raw['cols']))[:4]}")
    if set(v["rows"]) != set(raw["rows"]):
        out.append(f"view: constraint names differ from GLPK rows: {sorted(set(v['rows']) ^ set(raw['rows']))[:4]}")
    for n, (lb, ub, _t) in v["cols"].items():
        r = raw["cols"].get(n)
        if r and not (observe.close(lb, r[0]) and observe.close(ub, r[1])):
            out.append(f"view: variable {n} bounds {(lb, ub)} but GLPK has {r[:2]}")
    if v["dir"] != raw["dir"]:
        out.append(f"view: direction {v['dir']} but GLPK has {raw['dir']}")
    if v["obj"] is not None:
        for cn in set(v["obj"]) | set(raw["obj"]):
            if not observe.close(v["obj"].get(cn, 0.0), raw["obj"].get(cn, 0.0)):
                out.append(f"view: objective coefficient on {cn}: {v['obj'].get(cn, 0.0)} but GLPK has {raw['obj'].get(cn, 0.0)}")
    for n, (lb, ub, co) in v["rows"].items():
        r = raw["rows"].get(n)
        if r is None or co is None:
            continue
        for cn in set(co) | set(r[2]):
            if not observe.close(co.get(cn, 0.0), r[2].get(cn, 0.0)):
                out.append(f"view: constraint {n} coefficient on {cn}: {co.get(cn, 0.0)} but GLPK has {r[2].get(cn, 0.0)}")
    return out


def run_case(base, case, acc, force_dense=False):
    rng = gen.rng_for("C01", base, case)
    kind = rng.choice(["generated"] * 6 + ["empty", "mini", "textbook"])
    model, rec = hist.start_model(rng, kind)
    if rng.random() < 0.25:
        try:
            model.solver = "glpk_exact"
        except Exception:
            pass
    H = ops.Hist(model, rng)
    H.keep_ledger_on_exit = True
    dense = rng.random() < 0.8
    sparse_retry = None
    if not dense and not force_dense:
        # sparse history (observed only at the end, trap T1).  If it fails, the same
        # history is re-run densely so that the violation is attributed to its step.
        from cv.acc import Acc

        sparse_retry = acc
        acc = Acc()
        acc.journal_path = sparse_retry.journal_path
    if force_dense:
        dense = True
    n_steps = rng.randint(1, 25)
    allowed = ops.names()
    state = {"last": None, "ok": True}
    ident = {"base": base, "case": case, "start": kind, "dense": dense}

    def monitor(H, k, name, desc, exc, trace):
        if VERBOSE:
            print(k, name, str(desc)[:200], ("RAISED " + hist.describe_exc(exc)) if exc else "", flush=True)
        acc.add("op_kinds", name)
        if exc is not None:
            acc.count("steps_raised")
        if name == "ctx.exit":
            acc.count("ctx_exit_steps")
        if name == "model.copy":
            acc.count("copies")
        if name == "model.solver=":
            acc.count("solver_switches")
            if isinstance(desc, dict) and desc.get("form"):
                acc.add("solver_switch_forms", desc["form"])
        acc.add("interfaces", H.model.problem.__name__.split(".")[-1])
        if name == "ctx.exit" and _exact_copy_mechanism(H, exc):
            # from here on the history runs on a model the known optlang mechanism damaged
            state["tainted"] = "C01/ctx.exit/readd-fails/glpk_exact-objects-of-glpk-class-after-copy"
            acc.count("histories_tainted_by_known_optlang_mechanism")
        # a reaction that is outside the model was edited while a context is open: the edit is nobody's to
        # undo, but undo entries recorded earlier in that block may still speak about the reaction
        if name.startswith("detached.") and exc is None and H.entered and isinstance(desc, dict) and desc.get("what") == ["*=-1"]:
            # only edits of the detached reaction's *stoichiometry* invalidate the relative undo entries; bounds, knock-outs
            # and rules of a detached reaction are absolute values and must come back right (seeded changes C01-r2-2, C02-r2-1)
            state.setdefault("detached_edits", []).append((desc.get("id"), len(H.entered)))
        if name == "ctx.exit" and not state.get("tainted") and isinstance(desc, dict):
            # (whether or not the exit raises: with another sign pattern the relative undo "succeeds" and leaves the
            # reaction with a metabolite whose creation has been undone - thorough tier, seed 4, seen by C02)
            left = desc.get("depth", 0) + 1  # the block that has just been left
            if any(d >= left for _rid, d in state.get("detached_edits", [])):
                state["tainted"] = "C01/ctx.exit/raised/reaction-edited-outside-the-model-while-its-undo-entries-were-pending"
                acc.count("histories_tainted_by_an_untracked_edit_of_a_detached_reaction")
        if name == "ctx.exit" and isinstance(desc, dict):
            state["detached_edits"] = [(r_, d) for r_, d in state.get("detached_edits", []) if d <= desc.get("depth", 0)]
        if not dense and k != n_steps and k != -1:
            acc.count("steps_unobserved_sparse")
            return True
        try:
            probs, raw = check_model(H)
        except Exception as e:
            probs, raw = [f"observer could not read the model: {type(e).__name__}: {e}"], None
        acc.ev()
        sig = h(raw) if raw is not None else "unreadable"
        if sig != state["last"] or exc is not None:
            acc.nontrivial(name, sig)
        state["last"] = sig
        if probs:
            state["ok"] = False
            cls = _class_of(probs[0])
            where = "raised" if exc is not None else "ok"
            ctx = "in-context" if H.entered else "no-context"
            key = f"C01/{name}/{cls}/{where}/{ctx}"
            if state.get("tainted"):
                key = state["tainted"]
            acc.violation(
                key,
                f"after {name} ({where}, {ctx}) the solver problem is not the model's FBA problem: {probs[0]}",
                dict(ident, step=len(trace), trace=trace[-12:], problems=probs[:8], start_recipe=rec if len(str(rec)) < 6000 else "large"),
            )
            return False
        return True

    trace = hist.run_history(
        H, n_steps, allowed, monitor, ctx_prob=0.07, in_context=ops.names(with_tags=("rev",)),
        journal=lambda j: acc.journal(dict(j, base=base, case=case, start=kind)),
    )
    if state["ok"]:
        hist.close_contexts(H, monitor, trace)
    if state["ok"]:
        # end of history: the optlang view must agree with the raw problem as well
        try:
            raw = observe.raw_lp(H.model)
            vp = view_problems(H.model, raw)
        except Exception as e:
            vp = [f"view: could not be read: {type(e).__name__}: {e}"]
        acc.ev()
        acc.count("view_checks")
        if vp:
            acc.violation(
                f"C01/end-of-history/optlang-view/{_class_of(vp[0])}",
                f"optlang view and raw GLPK problem disagree: {vp[0]}",
                dict(ident, trace=trace[-12:], problems=vp[:8]),
            )
    acc.count("histories")
    acc.count("histories_dense" if dense else "histories_sparse")
    if sparse_retry is not None:
        real, sub = sparse_retry, acc
        if sub.violations:
            probe = type(sub)()
            probe.journal_path = real.journal_path
            run_case(base, case, probe, force_dense=True)
            if probe.violations:
                sub.violations = probe.violations  # attributed by the dense re-run
                real.count("sparse_failures_attributed_by_dense_rerun")
            else:
                sub.violations = {
                    "C01/sparse-only/" + k.split("/", 2)[2]: v for k, v in sub.violations.items()
                }
        real.merge_json(sub.to_json())
        acc = real
    if case < 2:
        acc.sample({"start": kind, "dense": dense, "trace": trace[:6]})


CRASH_IS_VIOLATION = True


def run_probe(pr, acc):
    """Scripted case for the recorded finding about a solver switch inside a context (the
    operation is kept out of the random in-context workload, see DESIGN.md 9.4a)."""
    from cv.props.c03 import _probe_model

    model = _probe_model()
    exc = None
    if pr["name"] == "detached-reaction-edited-in-context":
        # the minimal form of what a thorough run met: set the reaction from a string (creates a metabolite,
        # records relative undo entries), remove the reaction, flip it while it is outside the model, leave
        try:
            with model:
                r = model.reactions.R
                r.reaction = "0.5 new_c + a_c --> 3 new_c"
                model.remove_reactions([r])
                r *= -1
        except Exception as e:
            exc = e
        acc.ev()
        acc.count("probes_run")
        try:
            model.solver.update()
            probs = observe.fba_problems(model)
        except Exception as e:
            probs = [f"observer could not read the model: {type(e).__name__}: {str(e)[:120]}"]
        if exc is not None and probs:
            acc.violation(
                "C01/ctx.exit/raised/reaction-edited-outside-the-model-while-its-undo-entries-were-pending",
                f"with model: R.reaction = '...'; remove_reactions([R]); R *= -1 -> exit raised {type(exc).__name__}; afterwards: {probs[0]}",
                {"probe": pr["name"], "exit_exception": hist.describe_exc(exc), "problems": probs[:4]},
            )
        return
    try:
        with model:
            model.objective = "R"  # its undo entry holds an Objective over the current solver's variables
            model.solver = "glpk_exact"
    except Exception as e:
        exc = e
    acc.ev()
    acc.count("probes_run")
    try:
        model.solver.update()
        probs = observe.fba_problems(model)
    except Exception as e:
        probs = [f"observer could not read the model: {type(e).__name__}: {str(e)[:120]}"]
    if probs or exc is not None:
        acc.violation(
            "C01/ctx.exit/solver-switched-inside-the-context/undo-entries-hold-objects-of-the-replaced-solver",
            f"with model: model.objective = 'R'; model.solver = 'glpk_exact' -> exit raised {type(exc).__name__ if exc else None}; afterwards: {probs[0] if probs else 'consistent'}",
            {"probe": pr["name"], "exit_exception": hist.describe_exc(exc) if exc else None, "problems": probs[:4]},
        )


def run_shard(desc, acc):
    if desc.get("kind") == "probes":
        for pr in desc["probes"]:
            run_probe(pr, acc)
        return
    first = desc.get("first", 0)
    for case in range(first, first + desc["cases"]):
        run_case(desc["base"], case, acc)
        acc.checkpoint()


def replay(w, acc):
    run_case(w["base"], w["case"], acc)
