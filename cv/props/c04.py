"""C04 - FBA returns a true optimum, or a true verdict that none exists.

Monitor shape: runtime contracts on the real functions.  icontract postconditions are
attached to Model.optimize and Model.slim_optimize; on every call they rebuild the
flux-balance problem from the model's Python-side data, solve it with the exact
rational oracle (certified) and judge status, value, primal feasibility, the dual
certificate from the *reported* shadow prices, the reduced-cost identity and the
per-object accessors.  Solutions are additionally deep-copied at return and compared
again after later edits and solves (snapshot semantics).
"""
import copy
import math
import warnings

from cv import gen, observe
from cv.acc import h
from cv.exactlp import fr

PROPERTY = "C04"
LEVEL = "exploration"
RULE = (
    "case = one optimize()/slim_optimize() call judged by the postconditions.  Models: generated "
    "networks (3-33 reactions; fixed, forced, one-sided, infinite and beyond-default bounds; "
    "weighted, negative, empty objectives; max/min) and derived infeasible / unbounded variants, "
    "on glpk and glpk_exact, fresh / re-solved / edited-since-last-solve / copied-then-switched; "
    "bundled models (textbook, mini) under random bound/objective perturbations are judged by "
    "the float dual certificate only.  Non-trivial when the optimum is non-zero or the problem is "
    "infeasible/unbounded; distinct by (model hash, interface, call form, history state)."
    " The exception raised by slim_optimize(error_value=None) is compared with the harness's own table of the documented classes per solver status."  # third-session additions
)
ASSUMPTIONS = [
    "exact optimum compared with tolerance 1e-6*max(1,|q|); feasibility with 10x model.tolerance scaled by row norm",
    "generated coefficients are dyadic rationals / small integers, so GLPK's verdicts are far from every threshold (margin >= 1e-4, else counted as borderline-skipped)",
    "sign convention of duals is the one the property states: reduced cost = c - S^T shadow_price",
]
REACH = [
    "core/model.py:Model.slim_optimize",
    "core/model.py:Model.optimize",
    "core/solution.py:get_solution",
    "util/solver.py:assert_optimal",
    "util/solver.py:check_solver_status",
    "core/reaction.py:Reaction.flux",
    "core/reaction.py:Reaction.reduced_cost",
    "core/metabolite.py:Metabolite.shadow_price",
]
CRASH_IS_VIOLATION = False

_ACC = {"acc": None, "ctx": None, "armed": False, "exact": True}


class PostBroken(Exception):
    pass


def minimums(tier):
    return {
        "evaluations": 2000,
        "distinct_nontrivial": 500,
        "counters": {
            "post_optimize_evals": 800,
            "post_slim_evals": 800,
            "exact_optimal": 500,
            "exact_infeasible": 80,
            "exact_unbounded": 40,
            "dual_certificates_checked": 500,
            "snapshot_checks": 200,
            "accessor_checks": 300,
            "chain_calls": 1000,
        },
        "sets": {"interfaces": 2, "call_forms": 6},
    }


def plan(tier, seed):
    n = 16 if tier == "quick" else 64
    per = 45 if tier == "quick" else 300
    out = [{"kind": "generated", "cases": per, "base": seed * 1000003 + k} for k in range(n)]
    out += [{"kind": "chain", "cases": 25 if tier == "quick" else 200, "base": seed * 1000003 + 700 + k} for k in range(8 if tier == "quick" else 32)]
    out += [{"kind": "bundled", "model": m, "cases": 40 if tier == "quick" else 200, "base": seed * 1000003 + 500 + i} for i, m in enumerate(["textbook", "mini", "textbook", "mini"] if tier == "quick" else ["textbook", "mini"] * 8)]
    return out


# ---------------------------------------------------------------------------
# the oracle side
# ---------------------------------------------------------------------------
def exact_of(model):
    lp, col, c, direction = gen.model_lp(model)
    res = lp.solve(c, direction)
    return res, col, c, direction


def S_rows(model):
    rows = []
    for met in model.metabolites:
        rows.append((met.id, {r.id: r.metabolites[met] for r in met.reactions if r.model is model}))
    return rows


def judge_solution(model, sol, ex, where, objective_sense=None):
    """All conditions on a returned Solution."""
    acc, ctx = _ACC["acc"], _ACC["ctx"]
    from cobra.util.solver import linear_reaction_coefficients

    res, col, c, direction = ex
    if objective_sense in ("maximize", "minimize"):
        # optimize(objective_sense=...) temporarily overrides the direction
        want_dir = "max" if objective_sense == "maximize" else "min"
        if want_dir != direction:
            lp, col, c, _d = gen.model_lp(model)
            res = lp.solve(c, want_dir)
            direction = want_dir
    acc.count("exact_" + res.status)
    tol = 10 * (model.tolerance or 1e-7)
    if res.status != "optimal":
        if sol.status == "optimal":
            acc.violation(
                f"C04/{where}/status-optimal-but-{res.status}",
                f"{where} reports status optimal (objective {sol.objective_value}) but the flux-balance problem is {res.status}",
                dict(ctx, exact_status=res.status, reported=sol.objective_value),
            )
        return
    if sol.status != "optimal":
        acc.violation(
            f"C04/{where}/status-{sol.status}-but-optimum-exists",
            f"{where} reports status {sol.status} but the problem has the optimum {float(res.obj)}",
            dict(ctx, exact=float(res.obj)),
        )
        return
    q = float(res.obj)
    # 1. primal feasibility
    v = sol.fluxes
    rids = [r.id for r in model.reactions]
    if list(v.index) != rids:
        acc.violation(f"C04/{where}/flux-index", "Solution.fluxes is not indexed by the model's reactions in order", dict(ctx))
        return
    for r in model.reactions:
        x = v[r.id]
        if not (r.lower_bound - tol * max(1, abs(r.lower_bound) if math.isfinite(r.lower_bound) else 1) <= x <= r.upper_bound + tol * max(1, abs(r.upper_bound) if math.isfinite(r.upper_bound) else 1)):
            acc.violation(f"C04/{where}/flux-out-of-bounds", f"flux of {r.id} = {x} outside bounds {r.bounds}", dict(ctx, reaction=r.id, flux=x))
            return
    for mid, row in S_rows(model):
        s = sum(coef * v[rid] for rid, coef in row.items())
        norm = max(1.0, sum(abs(coef * v[rid]) for rid, coef in row.items()))
        if abs(s) > tol * norm:
            acc.violation(f"C04/{where}/steady-state", f"steady state violated for {mid}: S.v = {s}", dict(ctx, metabolite=mid, residual=s))
            return
    # 2. objective value
    cf = {r.id: k for r, k in linear_reaction_coefficients(model).items()}
    cv = sum(k * v[rid] for rid, k in cf.items())
    scale = max(1.0, abs(q))
    if abs(sol.objective_value - cv) > 1e-6 * scale:
        acc.violation(f"C04/{where}/objective-value-vs-fluxes", f"objective_value {sol.objective_value} != c.v = {cv}", dict(ctx))
        return
    if abs(sol.objective_value - q) > 1e-6 * scale:
        acc.violation(
            f"C04/{where}/not-the-optimum",
            f"objective_value {sol.objective_value} but the true optimum is {q}",
            dict(ctx, exact=q, reported=sol.objective_value),
        )
        return
    # 3./4. duals
    if sol.shadow_prices is not None and not any(math.isnan(x) for x in sol.shadow_prices.values):
        judge_duals(model, sol, cf, direction, where, q)


def judge_duals(model, sol, cf, direction, where, q=None):
    acc, ctx = _ACC["acc"], _ACC["ctx"]
    y = sol.shadow_prices
    v = sol.fluxes
    if list(y.index) != [m.id for m in model.metabolites]:
        acc.violation(f"C04/{where}/shadow-index", "Solution.shadow_prices is not indexed by the model's metabolites in order", dict(ctx))
        return
    rho = {}
    for r in model.reactions:
        rho[r.id] = cf.get(r.id, 0.0) - sum(coef * y[m.id] for m, coef in r.metabolites.items())
    eps = 1e-6
    sign = 1 if direction == "max" else -1
    bound_sum = 0.0
    acc.count("dual_certificates_checked")
    for r in model.reactions:
        d = sign * rho[r.id]
        x = v[r.id]
        scale = max(1.0, abs(x))
        if d > eps:
            if not (math.isfinite(r.upper_bound) and abs(x - r.upper_bound) <= 1e-6 * scale):
                acc.violation(
                    f"C04/{where}/dual-certificate/sign-condition",
                    f"shadow prices do not certify the optimum: c - S^T y = {rho[r.id]} on {r.id} ({direction}) but its flux {x} is not at the upper bound {r.upper_bound}",
                    dict(ctx, reaction=r.id, rho=rho[r.id], flux=x, bounds=list(r.bounds)),
                )
                return
            bound_sum += rho[r.id] * r.upper_bound
        elif d < -eps:
            if not (math.isfinite(r.lower_bound) and abs(x - r.lower_bound) <= 1e-6 * scale):
                acc.violation(
                    f"C04/{where}/dual-certificate/sign-condition",
                    f"shadow prices do not certify the optimum: c - S^T y = {rho[r.id]} on {r.id} ({direction}) but its flux {x} is not at the lower bound {r.lower_bound}",
                    dict(ctx, reaction=r.id, rho=rho[r.id], flux=x, bounds=list(r.bounds)),
                )
                return
            bound_sum += rho[r.id] * r.lower_bound
    if abs(bound_sum - sol.objective_value) > 1e-5 * max(1.0, abs(sol.objective_value)):
        acc.violation(
            f"C04/{where}/dual-certificate/dual-objective",
            f"dual objective from the shadow prices {bound_sum} != objective value {sol.objective_value}",
            dict(ctx, dual=bound_sum, primal=sol.objective_value),
        )
        return
    # reduced costs identity, entrywise
    rc = sol.reduced_costs
    if rc is not None and not any(math.isnan(x) for x in rc.values):
        acc.count("reduced_cost_identity_checked")
        bad = [(rid, rc[rid], rho[rid]) for rid in rho if abs(rc[rid] - rho[rid]) > 1e-6 * max(1.0, abs(rho[rid]))]
        if bad:
            # mechanism classifier: reported = 2 x (c - S^T y) on every non-zero entry
            nz = [(rid, a, b) for rid, a, b in bad if abs(b) > 1e-9]
            twice = bool(nz) and all(abs(a - 2 * b) <= 1e-6 * max(1.0, abs(b)) for rid, a, b in nz) and all(
                abs(rc[rid] - 2 * rho[rid]) <= 1e-6 * max(1.0, abs(rho[rid])) for rid in rho
            )
            key = "C04/reduced_costs/equals-2x(c-S^T.y)" if twice else f"C04/{where}/reduced-costs-identity"
            acc.violation(
                key,
                f"reduced cost of {bad[0][0]} reported {bad[0][1]} but c - S^T y = {bad[0][2]}" + (" (every entry is exactly twice the identity)" if twice else ""),
                dict(ctx, examples=bad[:4]),
            )


# ---------------------------------------------------------------------------
# contracts
# ---------------------------------------------------------------------------
def post_optimize(self, result, objective_sense=None, raise_error=False):
    if not _ACC["armed"]:
        return True
    acc = _ACC["acc"]
    acc.count("post_optimize_evals")
    acc.ev()
    try:
        if _ACC["exact"]:
            ex = exact_of(self)
            judge_solution(self, result, ex, "optimize", objective_sense)
        else:
            judge_float(self, result, "optimize", objective_sense)
    except AssertionError as e:
        acc.harness_error("oracle", e)
    return True


def post_slim(self, result, error_value=float("nan"), message=None):
    if not _ACC["armed"] or not _ACC["exact"]:
        return True
    acc, ctx = _ACC["acc"], _ACC["ctx"]
    acc.count("post_slim_evals")
    acc.ev()
    try:
        res, col, c, direction = exact_of(self)
    except AssertionError as e:
        acc.harness_error("oracle", e)
        return True
    acc.count("exact_" + res.status)
    if res.status == "optimal":
        q = float(res.obj)
        if result is None or (isinstance(result, float) and math.isnan(result)) or abs(result - q) > 1e-6 * max(1.0, abs(q)):
            acc.violation("C04/slim_optimize/not-the-optimum", f"slim_optimize returned {result}, the true optimum is {q}", dict(ctx, exact=q, returned=result))
    else:
        same = (result is error_value) or (isinstance(error_value, float) and math.isnan(error_value) and isinstance(result, float) and math.isnan(result)) or result == error_value
        if not same:
            acc.violation(
                f"C04/slim_optimize/value-returned-although-{res.status}",
                f"slim_optimize returned {result} instead of the error value {error_value}; the problem is {res.status}",
                dict(ctx, exact_status=res.status, returned=result),
            )
    return True


def judge_float(model, sol, where, objective_sense):
    """Bundled (realistic) models: float certificate only, no reference solver."""
    from cobra.util.solver import linear_reaction_coefficients

    acc = _ACC["acc"]
    if sol.status != "optimal":
        acc.count("bundled_non_optimal")
        return
    direction = model.objective_direction
    if objective_sense in ("maximize", "minimize"):
        direction = "max" if objective_sense == "maximize" else "min"
    cf = {r.id: k for r, k in linear_reaction_coefficients(model).items()}
    cv = sum(k * sol.fluxes[rid] for rid, k in cf.items())
    if abs(cv - sol.objective_value) > 1e-6 * max(1.0, abs(cv)):
        acc.violation(f"C04/{where}/objective-value-vs-fluxes", f"objective_value {sol.objective_value} != c.v {cv}", dict(_ACC["ctx"]))
        return
    judge_duals(model, sol, cf, direction, where)
    acc.count("exact_optimal")  # certified optimal by LP duality


_installed = False


def install_contracts():
    global _installed
    if _installed:
        return
    import cobra
    import icontract

    cobra.Model.optimize = icontract.ensure(post_optimize, error=PostBroken)(cobra.Model.optimize)
    cobra.Model.slim_optimize = icontract.ensure(post_slim, error=PostBroken)(cobra.Model.slim_optimize)
    _installed = True


# ---------------------------------------------------------------------------
# workload
# ---------------------------------------------------------------------------
def make_variant(rng, rec, kind):
    rec = copy.deepcopy(rec)
    rx = rec["rxns"]
    if kind == "infeasible":
        # force flux through a reaction without supply
        cand = [r for r in rx if not r["id"].startswith("EX_") and r["stoich"]]
        r = rng.choice(cand)
        r["lb"], r["ub"] = 5, 10
        for e in rx:
            if e["id"].startswith(("EX_", "SK_", "DM_")):
                e["lb"], e["ub"] = 0, 0
    elif kind == "unbounded":
        for r in rx:
            if r.get("obj"):
                r["ub"] = "inf"
                if r["lb"] != 0 and rng.random() < 0.3:
                    r["lb"] = "-inf"
        for e in rx:
            if e["id"].startswith("EX_") or e["id"].startswith("T"):
                e["lb"], e["ub"] = "-inf", "inf"
        for e in rx:
            if rng.random() < 0.7:
                if e["lb"] not in (0, "-inf") and not isinstance(e["lb"], str) and e["lb"] < 0:
                    e["lb"] = "-inf"
                if not isinstance(e["ub"], str) and e["ub"] > 0:
                    e["ub"] = "inf"
    return rec


def _call(model, rng, form, acc, ident, want_direction):
    from cobra.exceptions import Infeasible, OptimizationError, Unbounded

    acc.add("call_forms", form)
    ident["form"] = form
    sol = None
    try:
        if form == "optimize()":
            sol = model.optimize()
        elif form == "optimize(maximize)":
            sol = model.optimize("maximize")
        elif form == "optimize(minimize)":
            sol = model.optimize("minimize")
        elif form == "optimize(raise_error)":
            sol = model.optimize(raise_error=True)
        elif form == "slim()":
            model.slim_optimize()
        elif form == "slim(error_value=-7)":
            model.slim_optimize(error_value=-7.0)
        elif form == "slim(error_value=0)":
            model.slim_optimize(error_value=0)
        elif form == "slim(error_value=0.0)":
            model.slim_optimize(error_value=0.0)
        else:
            model.slim_optimize(error_value=None)
            # returned normally: there must be an optimum (the postcondition
            # compared the value)
    except OptimizationError as e:
        acc.ev()
        acc.count("optimization_errors_raised")
        ex = exact_of(model)[0]
        if form in ("optimize(maximize)", "optimize(minimize)"):
            lp_, col_, c_, _d = gen.model_lp(model)
            ex = lp_.solve(c_, "max" if "max" in form else "min")
        if form in ("slim(error_value=None)", "optimize(raise_error)"):
            direction_flip = False
            if ex.status == "optimal":
                acc.violation(f"C04/{form}/raised-although-optimum-exists", f"{form} raised {type(e).__name__} but the optimum {float(ex.obj)} exists", dict(ident))
            elif form == "slim(error_value=None)":
                # optimize(raise_error=True) documents a plain OptimizationError; slim_optimize
                # "raises the matching exception": the classes cobra.exceptions documents per solver status
                # (the harness's own table - the library's table is what is being observed)
                status = model.solver.status
                want = {"infeasible": "Infeasible", "unbounded": "Unbounded", "feasible": "FeasibleButNotOptimal", "undefined": "UndefinedSolution"}.get(status)
                acc.count("exception_classes_checked")
                if want is not None and type(e).__name__ != want:
                    acc.violation("C04/slim_optimize/exception-class", f"solver status {status} raised {type(e).__name__}, the matching exception is {want}", dict(ident))
                if ex.status == "infeasible" and isinstance(e, Unbounded) or ex.status == "unbounded" and isinstance(e, Infeasible):
                    acc.violation("C04/slim_optimize/exception-contradicts-truth", f"raised {type(e).__name__} but the problem is {ex.status}", dict(ident))
        elif form.startswith("optimize"):
            # optimize() without raise_error may raise for statuses without primal values
            if ex.status == "optimal":
                acc.violation(f"C04/{form}/raised-although-optimum-exists", f"{form} raised {type(e).__name__}: {e}", dict(ident))
        else:
            acc.violation(f"C04/{form}/raised", f"{form} raised {type(e).__name__}: {e}", dict(ident))
        return
    # direction must be back
    if model.objective_direction != want_direction:
        acc.violation("C04/optimize/direction-not-restored", f"objective direction is {model.objective_direction} after {form}", dict(ident))
    if sol is not None and sol.status == "optimal":
        check_accessors(acc, model, sol, ident)
        check_snapshot(acc, rng, model, sol, ident)


def run_generated(desc, acc):
    import cobra
    from cobra.exceptions import Infeasible, OptimizationError, Unbounded

    install_contracts()
    for case in range(desc["cases"]):
        rng = gen.rng_for("C04", desc["base"], case)
        rec = gen.network(rng, genes=0)
        kind = rng.choice(["plain"] * 5 + ["infeasible", "infeasible", "unbounded", "unbounded"])
        if kind != "plain":
            rec = make_variant(rng, rec, kind)
        lab, exres = gen.classify(rec)
        with warnings.catch_warnings():
            warnings.simplefilter("ignore")
            model = gen.build(rec)
        interface = rng.choice(["glpk", "glpk", "glpk_exact"])
        history = rng.choice(["fresh", "fresh", "resolved", "edited", "copied-then-switched", "pickled"])
        if history == "copied-then-switched":
            model = model.copy()
            model.solver = "glpk_exact" if interface == "glpk" else "glpk"
            model.solver = interface
        elif history == "pickled":
            import pickle

            model = pickle.loads(pickle.dumps(model))
            if interface != "glpk":
                model.solver = interface
        elif interface != "glpk":
            model.solver = interface
        acc.add("interfaces", interface)
        ident = {"base": desc["base"], "case": case, "variant": kind, "interface": interface, "history": history, "exact_status": lab["status"]}
        _ACC.update(acc=acc, ctx=ident, armed=True, exact=True)
        acc.journal(dict(ident, about_to_run="optimize"))
        sig = gen.recipe_sig(rec)
        nontrivial = lab["status"] != "optimal" or lab.get("opt_nonzero")
        try:
            if history == "resolved":
                model.slim_optimize()
                try:
                    model.optimize()
                except OptimizationError:
                    pass
            if history == "edited":
                model.slim_optimize()
                r = rng.choice(list(model.reactions))
                b = rng.choice([(0, 5), (-3, 3), (0, 0), (1, 2), (-1000, 1000)])
                r.bounds = b
                ident["edit"] = [r.id, list(b)]
            forms = rng.sample(FORMS, 4)
            for form in forms:
                if nontrivial:
                    acc.nontrivial(sig, interface, form, history)
                _call(model, rng, form, acc, ident, rec["direction"])
        except PostBroken as e:
            acc.harness_error("contract raised", e)
        except AssertionError as e:
            acc.harness_error("oracle", e)
        finally:
            _ACC["armed"] = False
        if case < 2:
            acc.sample({"variant": kind, "interface": interface, "history": history, "exact": lab["status"], "n_reactions": len(rec["rxns"]), "objective": {r["id"]: r["obj"] for r in rec["rxns"] if r.get("obj")}, "direction": rec["direction"]})
        acc.checkpoint()


def check_accessors(acc, model, sol, ident):
    acc.ev()
    acc.count("accessor_checks")
    for r in model.reactions:
        if abs(r.flux - sol.fluxes[r.id]) > 1e-9 * max(1, abs(r.flux)):
            acc.violation("C04/accessor/flux", f"{r.id}.flux {r.flux} != Solution {sol.fluxes[r.id]}", dict(ident))
            return
        if sol.reduced_costs is not None and not math.isnan(sol.reduced_costs[r.id]):
            if abs(r.reduced_cost - sol.reduced_costs[r.id]) > 1e-9 * max(1, abs(r.reduced_cost)):
                acc.violation("C04/accessor/reduced_cost", f"{r.id}.reduced_cost {r.reduced_cost} != Solution {sol.reduced_costs[r.id]}", dict(ident))
                return
    for m in model.metabolites:
        if sol.shadow_prices is not None and not math.isnan(sol.shadow_prices[m.id]):
            if abs(m.shadow_price - sol.shadow_prices[m.id]) > 1e-9 * max(1, abs(m.shadow_price)):
                acc.violation("C04/accessor/shadow_price", f"{m.id}.shadow_price {m.shadow_price} != Solution {sol.shadow_prices[m.id]}", dict(ident))
                return


def check_snapshot(acc, rng, model, sol, ident):
    """A returned Solution is a snapshot: later edits and solves must not alter it."""
    if rng.random() > 0.5:
        return
    acc.ev()
    acc.count("snapshot_checks")
    keep = (sol.objective_value, sol.status, sol.fluxes.copy(deep=True), None if sol.reduced_costs is None else sol.reduced_costs.copy(deep=True), None if sol.shadow_prices is None else sol.shadow_prices.copy(deep=True))
    was = _ACC["armed"]
    _ACC["armed"] = False
    try:
        with model:
            r = rng.choice(list(model.reactions))
            r.bounds = (0, 0)
            model.objective = rng.choice(list(model.reactions))
            model.objective_direction = rng.choice(["max", "min"])
            model.optimize()
            model.slim_optimize()
            for rr in list(model.reactions)[:3]:
                rr.bounds = (5, 5)
            model.optimize()  # most likely infeasible
    except Exception:
        pass
    finally:
        _ACC["armed"] = was
    same = (
        sol.objective_value == keep[0]
        and sol.status == keep[1]
        and sol.fluxes.equals(keep[2])
        and (keep[3] is None or sol.reduced_costs.equals(keep[3]))
        and (keep[4] is None or sol.shadow_prices.equals(keep[4]))
    )
    if not same:
        acc.violation("C04/solution-not-a-snapshot", "a returned Solution changed after later edits / optimisations", dict(ident))


def run_bundled(desc, acc):
    from cv import hist

    install_contracts()
    base_model = hist.bundled(desc["model"])
    for case in range(desc["cases"]):
        rng = gen.rng_for("C04b", desc["base"], case)
        model = base_model.copy()
        ident = {"base": desc["base"], "case": case, "model": desc["model"]}
        edits = []
        for _ in range(rng.randint(0, 6)):
            r = rng.choice(list(model.reactions))
            b = rng.choice([(0, 0), (0, 1000), (-1000, 1000), (0, 5), (-10, 10), (1, 1000)])
            r.bounds = b
            edits.append([r.id, list(b)])
        if rng.random() < 0.5:
            rs = rng.sample(list(model.reactions), 2)
            model.objective = {rs[0]: 1.0, rs[1]: rng.choice([0.5, -1, 2])}
            edits.append(["objective", [rs[0].id, rs[1].id]])
        if rng.random() < 0.3:
            model.objective_direction = "min"
            edits.append(["direction", "min"])
        if rng.random() < 0.25:
            model.solver = "glpk_exact"
            edits.append(["solver", "glpk_exact"])
        ident["edits"] = edits
        _ACC.update(acc=acc, ctx=ident, armed=True, exact=False)
        acc.add("interfaces", model.problem.__name__.split(".")[-1].replace("_interface", ""))
        try:
            form = rng.choice(["optimize()", "optimize(maximize)", "optimize(minimize)"])
            acc.add("call_forms", form)
            sol = model.optimize(None if form == "optimize()" else form[9:-1])
            if sol.status == "optimal":
                acc.nontrivial(desc["model"], h(edits), form)
                check_accessors(acc, model, sol, ident)
        except Exception as e:
            from cobra.exceptions import OptimizationError

            if not isinstance(e, OptimizationError):
                acc.violation(f"C04/optimize/unexpected-exception/{type(e).__name__}", f"optimize raised {type(e).__name__}: {e}", dict(ident))
        finally:
            _ACC["armed"] = False
        if case == 0:
            acc.sample({"bundled": desc["model"], "edits": edits})


FORMS = ["optimize()", "optimize(maximize)", "optimize(minimize)", "slim()", "slim(error_value=-7)", "slim(error_value=0)", "slim(error_value=0.0)", "slim(error_value=None)", "optimize(raise_error)"]
INF = float("inf")
BOUND_MENU = [(0, 5), (-3, 3), (0, 0), (1, 2), (-1000, 1000), (-INF, INF), (0, INF), (-INF, 0), (5, 10), (-10, -5), (0, 1000), (-1000, 0), (2.5, 2.5)]


def run_chain(desc, acc):
    """Warm-start chains: one solver object goes through 6-16 edits (bounds incl. infinite and
    forced ones, objective, direction, knock-outs in a context, reactions added / removed) with
    a judged call after every edit - the basis GLPK starts from is the previous optimum,
    infeasible or unbounded state."""
    import cobra
    from cobra.exceptions import OptimizationError

    install_contracts()
    for case in range(desc["cases"]):
        rng = gen.rng_for("C04chain", desc["base"], case)
        rec = gen.network(rng, genes=0)
        start = rng.choice(["plain", "plain", "unbounded", "unbounded", "infeasible"])
        if start != "plain":
            rec = make_variant(rng, rec, start)
        with warnings.catch_warnings():
            warnings.simplefilter("ignore")
            model = gen.build(rec)
        interface = rng.choice(["glpk", "glpk", "glpk_exact"])
        if interface != "glpk":
            model.solver = interface
        acc.add("interfaces", interface)
        steps = []
        ident = {"base": desc["base"], "case": case, "chain": True, "interface": interface, "history": "chain", "steps": steps}
        _ACC.update(acc=acc, ctx=ident, armed=True, exact=True)
        sig = gen.recipe_sig(rec)
        statuses = []
        added = 0
        try:
            for step in range(rng.randint(6, 16)):
                kind = rng.choice(["bounds", "bounds", "bounds", "objective", "objective=", "direction", "close", "open", "knockout-ctx", "add", "remove", "none"])
                rxns = list(model.reactions)
                ctx = None
                if kind == "bounds" and rxns:
                    r = rng.choice(rxns)
                    b = rng.choice(BOUND_MENU)
                    r.bounds = b
                    steps.append(["bounds", r.id, [str(x) for x in b]])
                elif kind == "objective" and rxns:
                    r = rng.choice(rxns)
                    k = rng.choice([0, 1, -1, 2.5, 1])
                    r.objective_coefficient = k
                    steps.append(["objective_coefficient", r.id, k])
                elif kind == "objective=" and rxns:
                    rs = rng.sample(rxns, min(len(rxns), rng.randint(1, 2)))
                    model.objective = {r: rng.choice([1, 1, -1, 3]) for r in rs}
                    steps.append(["objective=", [r.id for r in rs]])
                elif kind == "direction":
                    model.objective_direction = "min" if model.objective_direction == "max" else "max"
                    steps.append(["direction", model.objective_direction])
                elif kind == "close":
                    for r in model.exchanges:
                        r.bounds = (0, 0)
                    steps.append(["close-exchanges"])
                elif kind == "open":
                    b = rng.choice([(-INF, INF), (-1000, 1000), (-10, INF)])
                    for r in model.exchanges:
                        r.bounds = b
                    steps.append(["open-exchanges", [str(x) for x in b]])
                elif kind == "knockout-ctx" and rxns:
                    r = rng.choice(rxns)
                    ctx = r
                    steps.append(["knock-out-in-context", r.id])
                elif kind == "add" and len(model.metabolites) >= 2:
                    added += 1
                    new = cobra.Reaction(f"NEW{added}", lower_bound=rng.choice([0, -5, -INF]), upper_bound=rng.choice([5, 1000, INF]))
                    ms = rng.sample(list(model.metabolites), 2)
                    new.add_metabolites({ms[0]: -1, ms[1]: rng.choice([1, 2])})
                    model.add_reactions([new])
                    steps.append(["add", new.id, {m.id: c for m, c in new.metabolites.items()}, [str(x) for x in new.bounds]])
                elif kind == "remove" and len(rxns) > 3:
                    r = rng.choice(rxns)
                    model.remove_reactions([r])
                    steps.append(["remove", r.id])
                else:
                    steps.append(["none"])
                acc.journal(dict(base=desc["base"], case=case, step=step, about_to_run="chain-call"))
                for form in rng.sample(FORMS, rng.randint(1, 2)):
                    acc.count("chain_calls")
                    want = model.objective_direction
                    if ctx is not None:
                        with model:
                            ctx.knock_out()
                            _call(model, rng, form, acc, ident, want)
                    else:
                        _call(model, rng, form, acc, ident, want)
                    st = exact_of(model)[0].status if ctx is None else None
                    if st:
                        if statuses and statuses[-1] != st:
                            acc.count(f"chain_transition_{statuses[-1]}->{st}")
                        statuses.append(st)
                        acc.nontrivial(sig, interface, "chain", step, st)
        except PostBroken as e:
            acc.harness_error("contract raised", e)
        except AssertionError as e:
            acc.harness_error("oracle", e)
        finally:
            _ACC["armed"] = False
        if case < 1:
            acc.sample({"chain": steps[:8], "interface": interface, "statuses": statuses[:12]})
        acc.checkpoint()


def run_shard(desc, acc):
    if desc["kind"] == "generated":
        run_generated(desc, acc)
    elif desc["kind"] == "chain":
        run_chain(desc, acc)
    else:
        run_bundled(desc, acc)


def replay(w, acc):
    if w.get("chain"):
        run_chain({"base": w["base"], "cases": w["case"] + 1}, acc)
    elif "model" in w:
        run_bundled({"model": w["model"], "base": w["base"], "cases": w["case"] + 1}, acc)
    else:
        run_generated({"base": w["base"], "cases": w["case"] + 1}, acc)
