"""C05 - flux variability analysis reports the true flux ranges.

Oracle: exact rational FVA (and, for loopless, the exact union over all
thermodynamically feasible sign patterns of the internal-cycle reactions) computed
from the model's Python-side data; plus implied facts judged on every call.
"""
import math
import warnings

from cv import gen, oracles
from cv.acc import h

PROPERTY = "C05"
LEVEL = "exploration"
RULE = (
    "case = one flux_variability_analysis call on a feasible generated model (3-30 reactions, "
    "cycles of length 2-4 under every reversibility pattern, forced/fixed/one-sided bounds, "
    "max/min, weighted objectives) with reaction subsets as objects/ids/single/reversed, "
    "fraction_of_optimum in {1,0.9,0.5,0} (when the optimum has the sign of the direction), "
    "pfba_factor in {None,1,1.1,2}, loopless on/off, processes in {1,2,3}; textbook for "
    "the implied facts.  Non-trivial when >=1 requested range is a proper interval; distinct by "
    "(model hash, argument tuple)."
)
ASSUMPTIONS = [
    "values compared with 1e-6*max(1,|q|)",
    "pfba_factor judged exactly only for fraction_of_optimum == 1 (the documentation leaves open which pFBA solution is meant otherwise)",
    "loopless ranges judged exactly only when every internal-cycle reaction's bounds include zero (the docstring excludes forced loops) and there are <= 6 cycle reactions",
    "calls whose exact range is unbounded are out-of-domain-skipped",
]
REACH = [
    "flux_analysis/variability.py:flux_variability_analysis",
    "flux_analysis/variability.py:_fva_step",
    "flux_analysis/loopless.py:loopless_fva_iter",
    "flux_analysis/parsimonious.py:add_pfba",
]
TOL = 1e-6


def minimums(tier):
    return {
        "evaluations": 300,
        "distinct_nontrivial": 100,
        "counters": {"exact_plain_calls": 120, "exact_loopless_calls": 20, "exact_pfba_calls": 20, "ranges_compared": 1500, "multiprocess_calls": 30},
        "sets": {"fractions": 3, "list_forms": 4},
    }


def plan(tier, seed):
    n = 16 if tier == "quick" else 64
    per = 22 if tier == "quick" else 150
    out = [{"kind": "generated", "cases": per, "base": seed * 1000003 + k} for k in range(n)]
    out.append({"kind": "bundled", "model": "textbook", "base": seed, "cases": 3 if tier == "quick" else 12})
    out.append({"kind": "bundled", "model": "textbook", "base": seed + 1, "cases": 3 if tier == "quick" else 12})
    return out


def near(x, q):
    q = float(q)
    return abs(x - q) <= TOL * max(1.0, abs(q))


def run_generated(desc, acc):
    from cobra.flux_analysis import flux_variability_analysis as fva

    for case in range(desc["cases"]):
        rng = gen.rng_for("C05", desc["base"], case)
        rec = gen.network(rng, genes=0, finite=rng.random() < 0.8, size=rng.randint(1, 3))
        lab, res = gen.classify(rec)
        if lab["status"] != "optimal":
            acc.count("skipped_no_optimum")
            continue
        with warnings.catch_warnings():
            warnings.simplefilter("ignore")
            model = gen.build(rec)
        P = oracles.Problem(model)
        z = res.obj
        sign_ok = (z >= 0) if rec["direction"] == "max" else (z <= 0)
        for call in range(3):
            f = rng.choice([1.0, 1.0, 0.9, 0.5, 0.0]) if sign_ok else 1.0
            loopless = rng.random() < 0.3
            pf = rng.choice([None, None, None, 1.0, 1.1, 2.0]) if not loopless else None
            procs = rng.choice([1, 1, 1, 2, 3])
            rxns = list(model.reactions)
            form = rng.choice(["all", "objects", "ids", "single", "reversed-ids", "mixed"])
            if form == "all":
                lst, want = None, [r.id for r in rxns]
            elif form == "objects":
                sub = rng.sample(rxns, rng.randint(1, len(rxns)))
                lst, want = sub, [r.id for r in sub]
            elif form == "ids":
                sub = rng.sample(rxns, rng.randint(1, len(rxns)))
                lst, want = [r.id for r in sub], [r.id for r in sub]
            elif form == "single":
                r = rng.choice(rxns)
                lst, want = [r.id], [r.id]
            elif form == "reversed-ids":
                lst = [r.id for r in reversed(rxns)]
                want = list(lst)
            else:
                sub = rng.sample(rxns, min(len(rxns), 3))
                lst = [sub[0], sub[-1].id] if len(sub) > 1 else [sub[0]]
                want = [sub[0].id, sub[-1].id] if len(sub) > 1 else [sub[0].id]
            acc.add("fractions", str(f))
            acc.add("list_forms", form)
            args = {"fraction": f, "loopless": loopless, "pfba_factor": pf, "processes": procs, "form": form, "n_requested": len(want)}
            ident = {"base": desc["base"], "case": case, "call": call, "args": args, "direction": rec["direction"], "optimum": float(z)}
            acc.journal(dict(ident, about_to_run="fva"))
            if procs > 1:
                acc.count("multiprocess_calls")
            try:
                with warnings.catch_warnings():
                    warnings.simplefilter("ignore")
                    df = fva(model, reaction_list=lst, loopless=loopless, fraction_of_optimum=f, pfba_factor=pf, processes=procs)
            except Exception as e:
                acc.ev()
                if oracles.fva_exact(P, want, f, None) is None:
                    # some requested range is unbounded: outside the property's domain
                    acc.count("out_of_domain_or_unbounded_skipped")
                    continue
                key = f"C05/raised/{type(e).__name__}/" + ("pfba_factor" if pf is not None else ("loopless" if loopless else "plain"))
                if pf is not None and ((z < 0 and rec["direction"] == "max") or (z > 0 and rec["direction"] == "min")):
                    key = "C05/raised/pfba_factor-with-optimum-of-opposite-sign"
                acc.violation(key, f"flux_variability_analysis raised {type(e).__name__}: {str(e)[:200]} on a feasible model", dict(ident, start_recipe=rec))
                continue
            acc.ev()
            judge(acc, model, P, df, want, f, loopless, pf, ident, rec)
        if case < 2:
            acc.sample({"n_reactions": len(rec["rxns"]), "direction": rec["direction"], "optimum": float(z), "last_args": args})
        acc.checkpoint()


def judge(acc, model, P, df, want, f, loopless, pf, ident, rec=None):
    wit = lambda **kw: dict(ident, **kw, start_recipe=rec if rec is not None and len(str(rec)) < 6000 else None)
    if list(df.index) != want:
        acc.violation("C05/frame-index", f"result index {list(df.index)[:6]} != requested reactions {want[:6]}", wit())
        return
    if list(df.columns) != ["minimum", "maximum"]:
        acc.violation("C05/frame-columns", f"columns {list(df.columns)}", wit())
        return
    for rid in want:
        lo, hi = df.at[rid, "minimum"], df.at[rid, "maximum"]
        if math.isnan(lo) or math.isnan(hi):
            acc.violation("C05/nan-range", f"range of {rid} is NaN on a feasible model", wit(reaction=rid))
            return
        if lo > hi + TOL * max(1, abs(hi)):
            acc.violation("C05/min-greater-than-max", f"{rid}: minimum {lo} > maximum {hi}", wit(reaction=rid))
            return
    # exact ranges
    exact = None
    kind = None
    if not loopless:
        z_ok = ident.get("optimum") is None or (ident["optimum"] >= 0 if ident.get("direction") == "max" else ident["optimum"] <= 0)
        if pf is None or f == 1.0 or z_ok:
            # cap = pfba_factor x the smallest total flux *under the requested objective
            # requirement* (the nested pFBA runs on the model that already carries it)
            exact = oracles.fva_exact(P, want, f, pf)
            kind = "pfba" if pf is not None else "plain"
    else:
        cyc = oracles.Cycles(model)
        bounds = {r.id: r.bounds for r in model.reactions}
        forced = any(not (bounds[rid][0] <= 0 <= bounds[rid][1]) for rid in cyc.cycle_rxns)
        if forced:
            acc.count("loopless_forced_loop_not_judged_exactly")
        elif len(cyc.cycle_rxns) > 6:
            acc.count("loopless_too_many_cycle_reactions")
        else:
            orients = cyc.feasible_orientations(bounds, limit=6)
            exact = oracles.loopless_fva_exact(P, cyc, orients, want, f)
            kind = "loopless"
            plain = oracles.fva_exact(P, want, f, None)
    if exact is None:
        acc.count("out_of_domain_or_unbounded_skipped")
        return
    acc.count(f"exact_{kind}_calls")
    proper = False
    for rid in want:
        qlo, qhi = exact[rid]
        lo, hi = df.at[rid, "minimum"], df.at[rid, "maximum"]
        acc.count("ranges_compared")
        if qlo != qhi:
            proper = True
        if not (near(lo, qlo) and near(hi, qhi)):
            key = f"C05/{kind}/wrong-range"
            extra = {}
            if kind == "loopless":
                plo, phi = plain[rid] if plain else (None, None)
                inside_plain = plain is not None and float(plo) - 1e-6 <= lo and hi <= float(phi) + 1e-6
                nvec = sum(1 for n in cyc.N if n[cyc.idx[rid]] != 0) if rid in cyc.idx else 0
                wider = lo <= float(qlo) + 1e-6 and hi >= float(qhi) - 1e-6
                narrower = lo >= float(qlo) - 1e-6 and hi <= float(qhi) + 1e-6
                # Mechanisms of the recorded finding (the implementation post-processes ONE
                # optimal vertex per reaction with CycleFreeFlux and, if that changed the
                # target's flux, closes the reactions that only ran in the loop and
                # re-optimises).  Each class below is *proved* from the structure of the
                # case; a discrepancy that fits none of them is a fresh violation.
                #  (a) an objective reaction lies on an internal cycle: the objective
                #      requirement is computed from the loop-inflated optimum, so the loop
                #      cannot be removed;
                #  (b) narrower than exact: closing whole reactions also forbids their
                #      loop-free use (needs the target on a cycle);
                #  (c) wider / shifted with >= 2 independent cycles and the target on a
                #      cycle: another cycle carries the loop after one was closed.
                # With a single cycle, no objective reaction on it and a result that is not
                # narrower, the correct heuristic is exact: either the loop-free vertex
                # keeps the plain optimum (then it *is* the loop-free optimum), or closing
                # the cycle's other reactions removes the only loop.
                obj_rids = {r_ for r_ in P.rids if P.c.get(P.col[r_])}
                obj_on_cycle = bool(obj_rids & set(cyc.cycle_rxns))
                target_on_cycle = rid in cyc.cycle_rxns
                shape = "wider" if wider else "narrower" if narrower else "shifted"
                if inside_plain:
                    acc.add("known_loopless_shapes", f"nullity={len(cyc.N)} target_on_cycle={target_on_cycle} obj_on_cycle={obj_on_cycle} {shape}")
                if inside_plain and obj_on_cycle:
                    key = "C05/loopless/cyclefreeflux-heuristic-inexact/objective-reaction-on-an-internal-cycle"
                elif inside_plain and target_on_cycle and narrower:
                    key = "C05/loopless/cyclefreeflux-heuristic-inexact/narrower-than-exact"
                elif inside_plain and target_on_cycle and len(cyc.N) >= 2:
                    key = "C05/loopless/cyclefreeflux-heuristic-inexact/several-cycles-" + ("wider-than-exact-but-inside-plain" if wider else "shifted-inside-plain")
                elif inside_plain:
                    key = "C05/loopless/wrong-range/" + ("target-not-on-a-cycle" if not target_on_cycle else "single-cycle-not-removed")
                extra = {"plain": [float(plo), float(phi)] if plain else None, "cycle_reactions": cyc.cycle_rxns, "nullity": len(cyc.N), "basis_vectors_through_target": nvec}
            acc.violation(
                key,
                f"{kind} FVA of {rid}: reported [{lo}, {hi}], exact [{float(qlo)}, {float(qhi)}]",
                wit(reaction=rid, reported=[lo, hi], exact=[float(qlo), float(qhi)], **extra),
            )
            return
    if proper:
        acc.nontrivial(gen.recipe_sig(rec) if rec else ident.get("model"), h(ident["args"]))


def run_bundled(desc, acc):
    """Implied facts on realistic models (no exact oracle)."""
    from cobra.flux_analysis import flux_variability_analysis as fva
    from cv import hist

    model = hist.bundled(desc["model"])
    sol = model.optimize()
    for case in range(desc["cases"]):
        rng = gen.rng_for("C05b", desc["base"], case, desc["model"])
        f = rng.choice([1.0, 0.9, 0.5])
        rxns = rng.sample(list(model.reactions), 12)
        procs = rng.choice([1, 2])
        ident = {"model": desc["model"], "base": desc["base"], "case": case, "args": {"fraction": f, "processes": procs}}
        plain = fva(model, reaction_list=rxns, fraction_of_optimum=f, processes=procs)
        acc.ev()
        acc.count("bundled_calls")
        for r in rxns:
            lo, hi = plain.at[r.id, "minimum"], plain.at[r.id, "maximum"]
            acc.count("ranges_compared")
            if lo > hi + 1e-6:
                acc.violation("C05/min-greater-than-max", f"{r.id}: {lo} > {hi}", dict(ident, reaction=r.id))
            v = sol.fluxes[r.id]
            if not (lo - 1e-6 * max(1, abs(lo)) <= v <= hi + 1e-6 * max(1, abs(hi))):
                acc.violation("C05/optimal-fba-flux-outside-range", f"{r.id}: optimal flux {v} outside [{lo}, {hi}]", dict(ident, reaction=r.id))
        if case % 2 == 0:
            ll = fva(model, reaction_list=rxns[:5], fraction_of_optimum=f, loopless=True, processes=1)
            for r in rxns[:5]:
                if ll.at[r.id, "minimum"] < plain.at[r.id, "minimum"] - 1e-6 or ll.at[r.id, "maximum"] > plain.at[r.id, "maximum"] + 1e-6:
                    acc.violation("C05/loopless-range-outside-plain", f"{r.id}: loopless [{ll.at[r.id,'minimum']}, {ll.at[r.id,'maximum']}] not inside plain [{plain.at[r.id,'minimum']}, {plain.at[r.id,'maximum']}]", dict(ident, reaction=r.id))
        acc.nontrivial(desc["model"], case, f)


def run_probe(pr, acc):
    """One committed deterministic case per recorded known finding (probes/C05/*.json)."""
    from cobra.flux_analysis import flux_variability_analysis as fva

    rec = pr["recipe"]
    lab, res = gen.classify(rec)
    with warnings.catch_warnings():
        warnings.simplefilter("ignore")
        model = gen.build(rec)
        P = oracles.Problem(model)
        a = pr["args"]
        df = fva(model, reaction_list=a["reaction_list"], loopless=a["loopless"], fraction_of_optimum=a["fraction"], pfba_factor=a.get("pfba_factor"), processes=1)
    acc.ev()
    acc.count("probes_run")
    ident = {"probe": pr["name"], "args": a, "direction": rec["direction"], "optimum": float(res.obj)}
    judge(acc, model, P, df, list(a["reaction_list"]), a["fraction"], a["loopless"], a.get("pfba_factor"), ident, rec)


def run_shard(desc, acc):
    if desc["kind"] == "probes":
        for pr in desc["probes"]:
            run_probe(pr, acc)
        return
    if desc["kind"] == "generated":
        run_generated(desc, acc)
    else:
        run_bundled(desc, acc)


def replay(w, acc):
    if "model" in w:
        run_bundled({"model": w["model"], "base": w["base"], "cases": w["case"] + 1}, acc)
    else:
        run_generated({"base": w["base"], "cases": w["case"] + 1}, acc)
