"""C16 - every flux sample is a feasible flux distribution.

Oracle (independent of the sampler's validate): every returned row is checked against
S v = 0, the flux bounds and the driver's ledger of extra linear constraints computed
from the model's content, with the sampler's documented tolerance and a guard band;
validate() must agree with that check; row counts, column order, seed reproducibility
and non-modification of the model are checked too.
"""
import math
import warnings

import numpy as np

from cv import gen, hist, observe, oracles
from cv.acc import h

PROPERTY = "C16"
LEVEL = "exploration"
RULE = (
    "case = one sample frame from ACHR / OptGP (through sample(), the sampler objects or "
    "batch()), in reaction space or solver-variable space, on a feasible generated model with "
    "finite bounds and >= 2 free dimensions (homogeneous, or with forced / fixed fluxes and 0-2 "
    "extra linear constraints) or on textbook; n in {1,7,50}, thinning in {1,10,100}, small nproj "
    "(so that re-projection happens), several seeds, processes in {1,2,4}.  Non-trivial when >= 2 "
    "rows differ; distinct by (model hash, method, n, thinning, seed, processes, space)."
    " A later-built single-process sampler of another model stays alive next to OptGP draws; the re-projection step is driven directly with points pushed off the equalities (wide reversible models with a non-zero equality); long chains of 70 000 steps at tolerance 1e-9."  # third-session additions
)
ASSUMPTIONS = [
    "tolerance = sampler.feasibility_tol = bounds_tol = model.tolerance; a violation is reported above 2x tolerance (absolute, as the sampler documents), validate() must say 'v' below 0.5x and must not above 2x",
    "documented refusals (ValueError for degenerate spaces, TypeError for MILPs) are accepted outcomes",
]
REACH = [
    "sampling/hr_sampler.py:HRSampler.generate_fva_warmup",
    "sampling/hr_sampler.py:HRSampler._reproject",
    "sampling/hr_sampler.py:HRSampler.validate",
    "sampling/core.py:step",
    "sampling/achr.py:ACHRSampler.sample",
    "sampling/optgp.py:OptGPSampler.sample",
    "sampling/sampling.py:sample",
    "util/array.py:constraint_matrices",
]


def minimums(tier):
    return {
        "evaluations": 300,
        "distinct_nontrivial": 80,
        "counters": {"frames": 200, "samples_checked": 4000, "validate_comparisons": 2000, "seed_reproducibility_checks": 60, "models_with_extra_constraints": 15, "inhomogeneous_models": 20, "variable_space_frames": 30, "multiprocess_frames": 25},
        "sets": {"methods": 2},
    }


def plan(tier, seed):
    n = 15 if tier == "quick" else 60
    per = 18 if tier == "quick" else 120
    out = [{"kind": "generated", "cases": per, "base": seed * 1000003 + k} for k in range(n)]
    out.append({"kind": "textbook", "base": seed})
    out.append({"kind": "wide-reversible", "cases": 4 if tier == "quick" else 24, "base": seed})
    # long chains (70 000 steps each) on models with a non-zero equality: where the periodic re-projection has work to do
    out += [{"kind": "long-chain", "cases": 2 if tier == "quick" else 6, "base": seed * 1000003 + 500 + k} for k in range(2 if tier == "quick" else 8)]
    return out


def independent_errors(model, extra, row, space, names):
    """max equality residual, max bound violation (>=0 means violation amount)."""
    if space == "fluxes":
        v = {rid: float(x) for rid, x in zip(names, row)}
    else:
        val = {nm: float(x) for nm, x in zip(names, row)}
        v = {r.id: val[r.forward_variable.name] - val[r.reverse_variable.name] for r in model.reactions}
    eq = 0.0
    for m in model.metabolites:
        s = sum(r.metabolites[m] * v[r.id] for r in m.reactions)
        eq = max(eq, abs(s))
    bd = -math.inf
    for r in model.reactions:
        bd = max(bd, r.lower_bound - v[r.id], v[r.id] - r.upper_bound)
    for coefs, lb, ub in extra:
        s = sum(c * v[rid] for rid, c in coefs.items())
        if lb is not None and ub is not None and lb == ub:
            eq = max(eq, abs(s - lb))
        else:
            if lb is not None:
                bd = max(bd, lb - s)
            if ub is not None:
                bd = max(bd, s - ub)
    if space != "fluxes":
        for r in model.reactions:
            for var in (r.forward_variable, r.reverse_variable):
                x = val[var.name]
                if var.lb is not None:
                    bd = max(bd, var.lb - x)
                if var.ub is not None:
                    bd = max(bd, x - var.ub)
    return eq, bd


def documented_drift(sampler, row, eq, bd, tol):
    """Proves the recorded mechanism for one sample: nothing but the equality residual is
    off, it is off by a small factor (<= 100 x tolerance: the residual tolerated on the
    running centre times one step length), and the sampler's own validate() - the filter
    the documentation tells users to apply - flags exactly this sample as invalid."""
    if sampler is None or bd > 2 * tol or eq > 100 * tol:
        return False
    try:
        code = sampler.validate(np.atleast_2d(row))[0]
    except Exception:
        return False
    return code != "v"


def free_dimensions(model):
    P = oracles.Problem(model)
    dims = 0
    for rid in P.rids:
        j = P.col[rid]
        lo, hi = P.lp.solve({j: 1}, "min"), P.lp.solve({j: 1}, "max")
        if lo.status == "optimal" and hi.status == "optimal" and hi.obj - lo.obj > 1e-3:
            dims += 1
    return dims


class _Refused(Exception):
    """The sampler's constructor refused the model (documented: degenerate spaces, MILPs)."""


_BYSTANDERS = []  # sampler objects of another model that stay alive (a sampler must not depend on being the latest one built)


def _bystander_model():
    import cobra

    m = cobra.Model("bystander")
    a = cobra.Metabolite("a_c", compartment="c")
    rs = []
    for rid, coef, lb, ub in (("IN", 1, 2, 5), ("OUT1", -1, 0, 10), ("OUT2", -1, -1, 10), ("OUT3", -2, 0, 3)):
        r = cobra.Reaction(rid, lower_bound=lb, upper_bound=ub)
        r.add_metabolites({a: coef})
        rs.append(r)
    m.add_reactions(rs)
    return m


_REPROJ = {"installed": False, "calls": 0, "acted": 0}


def _tap_reproject():
    """Observability: how often does the periodic re-projection meet a point that has left the equalities (only then
    does it do anything)?  Without such events a run says nothing about that branch."""
    if _REPROJ["installed"]:
        return
    from cobra.sampling.hr_sampler import HRSampler

    orig = HRSampler._reproject

    def _reproject(self, p):
        _REPROJ["calls"] += 1
        try:
            if not np.allclose(self.problem.equalities.dot(p), self.problem.b, rtol=0, atol=self.feasibility_tol):
                _REPROJ["acted"] += 1
        except Exception:
            pass
        return orig(self, p)

    HRSampler._reproject = _reproject
    _REPROJ["installed"] = True


def run_model(acc, rng, model, extra, ident0, sig, long_chain=False):
    from cobra.sampling import ACHRSampler, OptGPSampler, sample

    _tap_reproject()
    c0, a0 = _REPROJ["calls"], _REPROJ["acted"]
    try:
        _run_model(acc, rng, model, extra, ident0, sig, long_chain)
    finally:
        acc.count("reprojection_checks_observed", _REPROJ["calls"] - c0)
        acc.count("reprojections_of_a_point_off_the_equalities", _REPROJ["acted"] - a0)


def _run_model(acc, rng, model, extra, ident0, sig, long_chain=False):
    from cobra.sampling import ACHRSampler, OptGPSampler, sample

    tol = model.tolerance
    snap = observe.snapshot(model)
    for call in range(3 if not long_chain else 1):
        method = rng.choice(["achr", "optgp", "optgp"])
        n = rng.choice([1, 7, 7, 50])
        thinning = rng.choice([1, 10, 10, 100])
        if long_chain:
            # tens of thousands of steps on one chain: round-off drifts off the equalities and the periodic re-projection
            # (every nproj steps, only when the running point has left them) actually has to repair something
            n, thinning = 700, 100
            acc.count("long_chains")
        seed = rng.choice([1, 42, 12345])
        procs = rng.choice([1, 1, 2, 4]) if method == "optgp" else 1
        space = rng.choice(["fluxes", "fluxes", "variables"])
        via = rng.choice(["object", "object", "sample()", "batch"])
        nproj = rng.choice([None, 5, 20])
        if via == "sample()":
            space, nproj = "fluxes", None
        if long_chain:
            procs, via, nproj = 1, "object", rng.choice([None, 50])
        acc.add("methods", method)
        ident = dict(ident0, method=method, n=n, thinning=thinning, seed=seed, processes=procs, space=space, via=via, nproj=nproj)
        acc.journal(dict(ident, about_to_run="sample"))

        def make():
            kw = {"thinning": thinning, "seed": seed}
            if nproj is not None:
                kw["nproj"] = nproj
            if method == "achr":
                return ACHRSampler(model, **kw)
            return OptGPSampler(model, processes=procs, **kw)

        def draw(s):
            if via == "batch":
                frames = list(s.batch(max(1, n // 2), 2, fluxes=(space == "fluxes")))
                import pandas as pd

                return pd.concat(frames, ignore_index=True)
            return s.sample(n, fluxes=(space == "fluxes"))

        try:
            with warnings.catch_warnings():
                warnings.simplefilter("ignore")
                if via == "sample()":
                    df = sample(model, n, method=method, thinning=thinning, processes=procs, seed=seed)
                    sampler = None
                else:
                    try:
                        sampler = make()
                    except (ValueError, TypeError):
                        raise _Refused()
                    if rng.random() < 0.35 or any(lb_ is not None and lb_ == ub_ and lb_ != 0 for _c, lb_, ub_ in extra):
                        # the repair step itself, at a hook: "_reproject ... is guaranteed to return a new feasible point".
                        # A chain needs hundreds of thousands of steps before round-off makes it act (4-12 times per
                        # quick run, see the counters), so it is also handed points pushed off the equalities directly.
                        _rs = np.random.get_state()  # ACHR draws from numpy's global generator: the probe must not move it
                        try:
                            P_ = sampler.problem
                            # an interior point (the centre) or a warm-up vertex: near a vertex a projection usually leaves the
                            # bounds and the fall-back is taken, in the interior it does not
                            w0 = np.array(sampler.center if rng.random() < 0.7 else sampler.warmup[rng.randrange(sampler.n_warmup)], dtype=float)
                            bump = np.random.RandomState(seed).normal(size=len(w0)) * 50 * sampler.feasibility_tol
                            out = sampler._reproject(w0 + bump)
                            acc.count("reprojections_of_a_pushed_point")
                            res_eq = float(np.abs(P_.equalities.dot(out) - P_.b).max()) if len(P_.b) else 0.0
                            vb = P_.variable_bounds
                            res_bd = float(max((vb[0] - out).max(), (out - vb[1]).max()))
                            if res_eq > 10 * sampler.feasibility_tol or res_bd > 10 * sampler.bounds_tol:
                                acc.ev()
                                acc.violation(
                                    f"C16/{method}/reproject-returns-an-infeasible-point",
                                    f"_reproject() of a point pushed {50 * sampler.feasibility_tol:.1g} off the equalities returned a point with equality residual {res_eq:.3g}, bound violation {res_bd:.3g}",
                                    dict(ident, equality_residual=res_eq, bound_violation=res_bd),
                                )
                                continue
                        except Exception as e:
                            acc.count("reproject_probe_errors")
                            acc.add("reproject_probe_error_kinds", type(e).__name__ + ": " + str(e)[:80])
                        finally:
                            np.random.set_state(_rs)
                    if method == "optgp" and rng.random() < 0.5:
                        # another model's sampler is built after ours and stays alive while ours is used.  (Not next to
                        # ACHR samplers: ACHR seeds numpy's *global* generator when it is constructed and draws from it
                        # afterwards, so by design its output depends on every other user of that generator in between;
                        # "the same seed gives the same samples" is judged for identical call sequences.)
                        try:
                            _BYSTANDERS.append(OptGPSampler(_bystander_model(), thinning=3, seed=7, processes=rng.choice([1, 1, 2])))
                            del _BYSTANDERS[:-2]
                            acc.count("draws_with_a_later_built_sampler_of_another_model_alive")
                        except Exception:
                            pass
                    df = draw(sampler)
        except _Refused:
            acc.count("documented_refusals")
            continue
        except (ValueError, TypeError) as e:
            if via == "sample()":
                # construction and drawing happen inside one call: a refusal cannot be told from a failing draw
                acc.count("documented_refusals")
                continue
            acc.ev()
            acc.violation(f"C16/{method}/draw-raised/{type(e).__name__}", f"a sampler that was constructed without complaint raised {type(e).__name__} while drawing: {str(e)[:160]}", ident)
            continue
        except RuntimeError as e:
            if "Cannot escape sampling region" in str(e):
                # the sampler gives up instead of returning anything; the property is about
                # the samples that are returned
                acc.count("sampler_gave_up_cannot_escape_region")
                continue
            acc.ev()
            acc.violation(f"C16/{method}/raised/RuntimeError", f"sampling raised RuntimeError: {str(e)[:160]}", ident)
            continue
        except Exception as e:
            acc.ev()
            acc.violation(f"C16/{method}/raised/{type(e).__name__}", f"sampling raised {type(e).__name__}: {str(e)[:160]}", ident)
            continue
        acc.ev()
        acc.count("frames")
        if space == "variables":
            acc.count("variable_space_frames")
        if procs > 1:
            acc.count("multiprocess_frames")
        # shape / columns
        if via == "batch":
            want_rows = 2 * (max(1, n // 2) if procs == 1 else int(math.ceil(max(1, n // 2) / procs)) * procs)
        else:
            want_rows = n if procs == 1 else int(math.ceil(n / procs)) * procs
        if len(df) != want_rows:
            acc.violation(f"C16/{method}/row-count", f"{len(df)} rows returned, requested {n} with {procs} processes ({via}) -> expected {want_rows}", ident)
            continue
        names = list(df.columns)
        want_cols = [r.id for r in model.reactions] if space == "fluxes" else [v.name for v in (sampler.model.variables if sampler is not None else model.variables)]
        if names != want_cols:
            acc.violation(f"C16/{method}/columns", f"columns {names[:5]} are not the model's {'reactions' if space == 'fluxes' else 'variables'} in order {want_cols[:5]}", ident)
            continue
        # feasibility of every row
        arr = df.to_numpy()
        worst = None
        errs = []
        for i in range(len(arr)):
            eq, bd = independent_errors(model, extra, arr[i], space, names)
            errs.append((eq, bd))
            acc.count("samples_checked")
            if eq > 2 * tol or bd > 2 * tol:
                worst = (i, eq, bd)
                break
        if worst is not None and worst[1] > 2 * tol and documented_drift(sampler, arr[worst[0]], worst[1], worst[2], tol):
            acc.violation(
                f"C16/{method}/equality-residual-slightly-above-tolerance/flagged-by-validate",
                f"sample {worst[0]}: equality residual {worst[1]:.3g} (tolerance {tol}), bounds fine; validate() flags it",
                dict(ident, row=worst[0], equality_residual=worst[1]),
            )
            continue
        if worst is not None:
            kind = "steady-state-or-equality" if worst[1] > 2 * tol else "bound-or-inequality"
            acc.violation(
                f"C16/{method}/infeasible-sample/{kind}" + ("/extra-constraint-model" if extra else ""),
                f"sample {worst[0]} violates {kind}: equality residual {worst[1]:.3g}, bound violation {worst[2]:.3g} (tolerance {tol})",
                dict(ident, row=worst[0], equality_residual=worst[1], bound_violation=worst[2], sample=[float(x) for x in arr[worst[0]]][:40]),
            )
            continue
        # validate() agreement
        if sampler is not None:
            try:
                codes = sampler.validate(arr)
                for (eq, bd), code in zip(errs, codes):
                    acc.count("validate_comparisons")
                    e = max(eq, bd)
                    if e < 0.5 * tol and code != "v":
                        acc.violation(f"C16/{method}/validate-rejects-feasible-sample", f"validate() says {code!r} for a sample whose independent error is {e:.3g} (tolerance {tol})", ident)
                        break
                # corrupt one sample far beyond the tolerance: must not be 'v'
                bad = arr[0].copy()
                bad[0] += 1000.0 * max(1.0, abs(bad[0]))
                code = sampler.validate(np.atleast_2d(bad))[0]
                acc.count("validate_comparisons")
                if code == "v":
                    acc.violation(f"C16/{method}/validate-accepts-infeasible-sample", "validate() says 'v' for a sample shifted by 1000 in one coordinate", ident)
            except Exception as e:
                acc.violation(f"C16/{method}/validate-raised/{type(e).__name__}", f"validate raised {type(e).__name__}: {str(e)[:120]}", ident)
        # the same sampler object asked again (its centre and previous point carry over)
        if sampler is not None and rng.random() < 0.6:
            again_bad = None
            try:
                with warnings.catch_warnings():
                    warnings.simplefilter("ignore")
                    for rep in range(rng.randint(1, 2)):
                        dfb = draw(sampler)
                        acc.count("repeated_draws_on_one_sampler")
                        arrb = dfb.to_numpy()
                        for i in range(len(arrb)):
                            eq, bd = independent_errors(model, extra, arrb[i], space, list(dfb.columns))
                            acc.count("samples_checked")
                            if eq > 2 * tol or bd > 2 * tol:
                                if documented_drift(sampler, arrb[i], eq, bd, tol):
                                    acc.violation(
                                        f"C16/{method}/equality-residual-slightly-above-tolerance/flagged-by-validate",
                                        f"draw {rep + 2} on the same sampler, sample {i}: equality residual {eq:.3g} (tolerance {tol}), bounds fine; validate() flags it",
                                        dict(ident, draw=rep + 2, row=i, equality_residual=eq),
                                    )
                                    continue
                                again_bad = (rep + 2, i, eq, bd)
                                break
                        if again_bad:
                            break
            except RuntimeError as e:
                if "Cannot escape sampling region" in str(e):
                    acc.count("sampler_gave_up_cannot_escape_region")
                else:
                    acc.violation(f"C16/{method}/raised/RuntimeError", f"second draw on the same sampler raised RuntimeError: {str(e)[:160]}", ident)
            except Exception as e:
                acc.violation(f"C16/{method}/raised/{type(e).__name__}", f"second draw on the same sampler raised {type(e).__name__}: {str(e)[:160]}", ident)
            if again_bad:
                kind = "steady-state-or-equality" if again_bad[2] > 2 * tol else "bound-or-inequality"
                acc.violation(
                    f"C16/{method}/infeasible-sample/{kind}/repeated-draw" + ("/extra-constraint-model" if extra else ""),
                    f"draw {again_bad[0]} on the same sampler: sample {again_bad[1]} violates {kind}: equality residual {again_bad[2]:.3g}, bound violation {again_bad[3]:.3g} (tolerance {tol})",
                    dict(ident, draw=again_bad[0], row=again_bad[1]),
                )
                continue
        # reproducibility for the same seed
        if call == 0 or rng.random() < 0.4:
            try:
                with warnings.catch_warnings():
                    warnings.simplefilter("ignore")
                    if via == "sample()":
                        df2 = sample(model, n, method=method, thinning=thinning, processes=procs, seed=seed)
                    else:
                        df2 = draw(make())
                acc.count("seed_reproducibility_checks")
                if not df.equals(df2):
                    acc.violation(f"C16/{method}/same-seed-different-samples", f"two fresh {method} samplers with seed {seed} ({procs} processes) returned different frames", ident)
                    continue
            except Exception as e:
                acc.violation(f"C16/{method}/second-sampler-raised/{type(e).__name__}", str(e)[:150], ident)
                continue
        if len(arr) >= 2 and not np.allclose(arr[0], arr[-1]):
            acc.nontrivial(sig, method, n, thinning, seed, procs, space, via)
    d = observe.snapshot_diff(snap, observe.snapshot(model), lp_rel=0.0)
    if d:
        acc.violation("C16/model-modified", f"sampling modified the model: {d[0]}", dict(ident0, diffs=d[:5]))


def run_probe(pr, acc):
    """Committed case for the recorded drift finding: fixed recipe, sampler settings and
    number of draws on one sampler object."""
    from cobra.sampling import ACHRSampler, OptGPSampler

    with warnings.catch_warnings():
        warnings.simplefilter("ignore")
        model = gen.build(pr["recipe"])
        a = pr["args"]
        tol = model.tolerance
        if a["method"] == "achr":
            sampler = ACHRSampler(model, thinning=a["thinning"], seed=a["seed"])
        else:
            sampler = OptGPSampler(model, processes=a["processes"], thinning=a["thinning"], seed=a["seed"])
        for d in range(a["draws"]):
            df = sampler.sample(a["n"], fluxes=(a["space"] == "fluxes"))
            arr = df.to_numpy()
            for i in range(len(arr)):
                eq, bd = independent_errors(model, [], arr[i], a["space"], list(df.columns))
                acc.count("samples_checked")
                if eq > 2 * tol or bd > 2 * tol:
                    acc.ev()
                    if documented_drift(sampler, arr[i], eq, bd, tol):
                        acc.violation(f"C16/{a['method']}/equality-residual-slightly-above-tolerance/flagged-by-validate", f"draw {d + 1}, sample {i}: equality residual {eq:.3g} (tolerance {tol}), bounds fine; validate() flags it", {"probe": pr["name"], "draw": d + 1, "row": i})
                    else:
                        acc.violation(f"C16/{a['method']}/infeasible-sample/" + ("steady-state-or-equality" if eq > 2 * tol else "bound-or-inequality"), f"draw {d + 1}, sample {i}: equality residual {eq:.3g}, bound violation {bd:.3g}", {"probe": pr["name"]})
                    return
    acc.ev()
    acc.count("probes_run")


def run_shard(desc, acc):
    if desc["kind"] == "probes":
        for pr in desc["probes"]:
            run_probe(pr, acc)
        return
    if desc["kind"] == "wide-reversible":
        # wide, symmetric, reversible ranges around a non-zero equality: interior points whose projection onto the
        # homogeneous null space stays inside every bound (the generated networks are mostly one-sided)
        import cobra

        for case in range(desc["cases"]):
            rng = gen.rng_for("C16w", desc["base"], case)
            m = cobra.Model("wide")
            mets = [cobra.Metabolite(f"w{k}_c", compartment="c") for k in range(3)]
            W = rng.choice([50.0, 100.0, 400.0])
            spec = [("WEX0", {0: 1}), ("W1", {0: -1, 1: 1}), ("W2", {0: -1, 2: 1}), ("W3", {1: -1, 2: 1}), ("WEX1", {1: -1}), ("WEX2", {2: -rng.choice([1, 2])})]
            rs = []
            for rid, st in spec:
                r = cobra.Reaction(rid, lower_bound=-W, upper_bound=W)
                r.add_metabolites({mets[k]: v for k, v in st.items()})
                rs.append(r)
            m.add_reactions(rs)
            rhs = rng.choice([7.0, -3.0, 0.5 * W / 10])
            coefs = {"W1": 1, "W2": -1}
            m.add_cons_vars([m.problem.Constraint(m.reactions.W1.flux_expression - m.reactions.W2.flux_expression, lb=rhs, ub=rhs, name="extra_0")])
            acc.count("models_with_extra_constraints")
            acc.count("inhomogeneous_models")
            run_model(acc, rng, m, [(coefs, rhs, rhs)], {"model": "wide-reversible", "base": desc["base"], "case": case, "rhs": rhs, "W": W}, f"wide-{W}-{rhs}")
        return
    if desc["kind"] == "textbook":
        rng = gen.rng_for("C16t", desc["base"])
        model = hist.bundled("textbook")
        run_model(acc, rng, model, [], {"model": "textbook", "base": desc["base"]}, "textbook")
        acc.sample({"model": "textbook"})
        return
    first = desc.get("first", 0)
    long_chain = desc["kind"] == "long-chain"
    for case in range(first, first + desc["cases"]):
        rng = gen.rng_for("C16L" if long_chain else "C16", desc["base"], case)
        rec = gen.network(rng, genes=0, finite=True, size=rng.randint(1, 2), allow_forced=rng.random() < 0.4)
        lab, _r = gen.classify(rec)
        if lab["status"] != "optimal":
            continue
        with warnings.catch_warnings():
            warnings.simplefilter("ignore")
            model = gen.build(rec)
        if rng.random() < 0.4:
            # forced / fixed flux: inhomogeneous sampling space
            sol = model.optimize()
            cand = [r for r in model.reactions if abs(sol.fluxes[r.id]) > 1e-3]
            if cand:
                r = rng.choice(cand)
                x = float(sol.fluxes[r.id])
                if rng.random() < 0.3:
                    r.bounds = (x / 2, x / 2)
                elif x > 0:
                    r.lower_bound = x / 4
                else:
                    r.upper_bound = x / 4
        if free_dimensions(model) < 2:
            acc.count("skipped_fewer_than_2_free_dimensions")
            continue
        if rng.random() < 0.3 and len(model.metabolites):
            # a user's own variable that does not sit at the end of the variable list: a
            # reaction is added after it (forward / reverse pairs are no longer at 2i, 2i+1)
            import cobra

            model.add_cons_vars([model.problem.Variable("aux_user_var", lb=0, ub=1)])
            late = cobra.Reaction("LATE", lower_bound=-3, upper_bound=3)
            late.add_metabolites({rng.choice(list(model.metabolites)): -1})
            model.add_reactions([late])
            acc.count("models_with_a_user_variable_inside_the_variable_list")
        extra = []
        if rng.random() < 0.45 or long_chain:
            for k in range(rng.randint(1, 2)):
                rs = rng.sample(list(model.reactions), min(2, len(model.reactions)))
                coefs = {r.id: rng.choice([1, -1, 2]) for r in rs}
                expr = sum(c * model.reactions.get_by_id(rid).flux_expression for rid, c in coefs.items())
                # keep the problem feasible: bounds around the value at the FBA solution
                sol = model.optimize()
                val = sum(c * sol.fluxes[rid] for rid, c in coefs.items())
                shapes = [(val - 5, val + 5), (None, val + 3), (val - 2, None)]
                if abs(val) > 1e-6:
                    shapes.append((val, val))  # equality with a non-zero right-hand side
                if abs(val) >= 2:
                    # a range far narrower than its magnitude but far wider than the tolerance
                    shapes.append((val - 5e-6 * abs(val), val) if val > 0 else (val, val + 5e-6 * abs(val)))
                    shapes.append((val - 5e-6 * abs(val), val) if val > 0 else (val, val + 5e-6 * abs(val)))
                lb, ub = rng.choice(shapes)
                if long_chain and abs(val) > 1e-6 and k == 0:
                    lb, ub = val, val  # an equality with a non-zero right-hand side
                acc.add("extra_constraint_shapes", "equality" if lb == ub else ("narrow-range" if lb is not None and ub is not None and ub - lb < 1e-3 * max(1.0, abs(ub)) else "range-or-one-sided"))
                model.add_cons_vars([model.problem.Constraint(expr, lb=lb, ub=ub, name=f"extra_{k}")])
                extra.append((coefs, lb, ub))
            acc.count("models_with_extra_constraints")
        if any(r.lower_bound > 0 or r.upper_bound < 0 for r in model.reactions):
            acc.count("inhomogeneous_models")
        ident0 = {"base": desc["base"], "case": case, "extra_constraints": [[c, lb, ub] for c, lb, ub in extra]}
        if long_chain:
            # the tightest tolerance the package accepts: the drift of a long chain leaves it after hundreds, not
            # hundreds of thousands, of steps, so that the periodic re-projection has to act within the budget
            model.tolerance = 1e-9
            ident0["tolerance"] = 1e-9
        run_model(acc, rng, model, extra, ident0, gen.recipe_sig(rec), long_chain=long_chain)
        if case == first:
            acc.sample({"n_reactions": len(rec["rxns"]), "extra_constraints": ident0["extra_constraints"]})
        acc.checkpoint()


def replay(w, acc):
    if w.get("model") == "textbook":
        run_shard({"kind": "textbook", "base": w["base"]}, acc)
    elif w.get("model") == "wide-reversible":
        run_shard({"kind": "wide-reversible", "base": w["base"], "cases": w["case"] + 1}, acc)
    elif w.get("tolerance") == 1e-9:
        run_shard({"kind": "long-chain", "base": w["base"], "first": w["case"], "cases": 1}, acc)
    else:
        run_shard({"kind": "generated", "base": w["base"], "first": w["case"], "cases": 1}, acc)
