"""C19 - blocked-reaction and consistency analyses agree with the true flux ranges.

Oracle: exact FVA without any objective requirement: blocked <=> exact min = max = 0.
find_blocked_reactions must return exactly the blocked ids among the requested ones
(with exchanges opened to +-1000 as documented when asked); fastcc must return a model
holding exactly the non-blocked reactions, each unchanged, none blocked, input untouched.
"""
import warnings

from cv import gen, observe, oracles
from cv.acc import h

PROPERTY = "C19"
LEVEL = "exploration"
RULE = (
    "case = one find_blocked_reactions call (reaction_list None/objects/ids/partial, "
    "open_exchanges on/off, processes 1/2) or one fastcc call on a generated model whose bounds "
    "include zero: reversible/irreversible mixes, reverse-only reactions, dead ends, isolated "
    "cycles, blocked branches, any objective (weights of either sign, max/min, empty).  "
    "Non-trivial when the model has blocked and unblocked reactions; distinct by (model hash, "
    "arguments)."
)
ASSUMPTIONS = [
    "robustly unblocked: exact max |v| >= 1e-3; between 0 and 1e-3 borderline-skipped (cannot occur with the dyadic data, counted)",
    "default thresholds (zero_cutoff = model.tolerance, flux_threshold = 1.0)",
]
REACH = [
    "flux_analysis/variability.py:find_blocked_reactions",
    "flux_analysis/fastcc.py:fastcc",
    "flux_analysis/fastcc.py:_find_sparse_mode",
    "flux_analysis/fastcc.py:_flip_coefficients",
]


def minimums(tier):
    return {
        "evaluations": 500,
        "distinct_nontrivial": 150,
        "counters": {"find_blocked_calls": 300, "fastcc_calls": 150, "reactions_classified_exactly": 3000, "open_exchanges_calls": 50},
    }


def plan(tier, seed):
    n = 16 if tier == "quick" else 64
    per = 40 if tier == "quick" else 280
    return [{"cases": per, "base": seed * 1000003 + k} for k in range(n)]


def exact_blocked(model, open_exchanges=False):
    P = oracles.Problem(model)
    lp = P.copy_lp()
    if open_exchanges:
        from cv.exactlp import fr

        for r in model.exchanges:
            j = P.col[r.id]
            lo, hi = r.bounds
            lp.lo[j] = fr(min(lo, -1000)) if lo != float("-inf") else None
            lp.hi[j] = fr(max(hi, 1000)) if hi != float("inf") else None
    out, border = {}, set()
    for rid in P.rids:
        j = P.col[rid]
        lo = lp.solve({j: 1}, "min")
        hi = lp.solve({j: 1}, "max")
        big = 0
        for s in (lo, hi):
            if s.status == "unbounded":
                big = 1e9
            elif s.status == "optimal":
                big = max(big, abs(float(s.obj)))
            else:
                return None, None  # infeasible model
        out[rid] = big == 0
        if 0 < big < 1e-3:
            border.add(rid)
    return out, border


def run_case(base, case, acc):
    from cobra.flux_analysis import fastcc, find_blocked_reactions

    rng = gen.rng_for("C19", base, case)
    rec = gen.network(rng, genes=rng.choice([0, 0, 3]), size=rng.randint(1, 3), allow_forced=False, finite=rng.random() < 0.7)
    # bounds must include zero
    for r in rec["rxns"]:
        lb, ub = gen._b(r["lb"]), gen._b(r["ub"])
        if lb > 0:
            r["lb"] = 0
        if ub < 0:
            r["ub"] = 0
    if rng.random() < 0.3:
        # isolated cycle
        rec["mets"] += [{"id": "ia_c", "compartment": "c"}, {"id": "ib_c", "compartment": "c"}]
        rec["rxns"] += [
            {"id": "IC1", "stoich": {"ia_c": -1, "ib_c": 1}, "lb": rng.choice([0, -1000]), "ub": 1000, "gpr": None, "obj": 0},
            {"id": "IC2", "stoich": {"ib_c": -1, "ia_c": 1}, "lb": 0, "ub": 1000, "gpr": None, "obj": 0},
        ]
    with warnings.catch_warnings():
        warnings.simplefilter("ignore")
        model = gen.build(rec)
    rids = [r.id for r in model.reactions]
    sig = gen.recipe_sig(rec)
    wrec = lambda: rec if len(str(rec)) < 6000 else None
    ident0 = {"base": base, "case": case, "direction": rec["direction"], "objective": {r["id"]: r["obj"] for r in rec["rxns"] if r.get("obj")}}
    cache = {}

    def blocked(open_ex):
        if open_ex not in cache:
            cache[open_ex] = exact_blocked(model, open_ex)
        return cache[open_ex]

    snap = observe.snapshot(model)
    for call in range(2):
        open_ex = rng.random() < 0.3
        procs = rng.choice([1, 1, 2])
        form = rng.choice(["None", "objects", "ids", "partial"])
        if form == "None":
            lst, want_ids = None, rids
        elif form == "objects":
            lst, want_ids = list(model.reactions), rids
        elif form == "ids":
            lst, want_ids = list(rids), rids
        else:
            sub = rng.sample(rids, rng.randint(1, len(rids)))
            lst, want_ids = sub, sub
        ident = dict(ident0, method="find_blocked_reactions", open_exchanges=open_ex, processes=procs, form=form)
        acc.journal(dict(ident, about_to_run="find_blocked_reactions"))
        ex, border = blocked(open_ex)
        if ex is None:
            acc.count("infeasible_model_skipped")
            continue
        try:
            with warnings.catch_warnings():
                warnings.simplefilter("ignore")
                got = find_blocked_reactions(model, reaction_list=lst, open_exchanges=open_ex, processes=procs)
        except Exception as e:
            acc.ev()
            if "unbounded" in str(e) and _some_range_unbounded(model, want_ids, open_ex):
                # the variability analysis underneath cannot report an unbounded range
                # (same domain rule as C05)
                acc.count("out_of_domain_unbounded_range_skipped")
                continue
            acc.violation(f"C19/find_blocked_reactions/raised/{type(e).__name__}", f"raised {type(e).__name__}: {str(e)[:160]}", dict(ident, start_recipe=wrec()))
            continue
        acc.ev()
        acc.count("find_blocked_calls")
        if open_ex:
            acc.count("open_exchanges_calls")
        acc.count("reactions_classified_exactly", len(want_ids))
        got = set(got)
        want = {rid for rid in want_ids if ex[rid]}
        wrong_b = sorted((got - want) - border)
        wrong_u = sorted((want - got) - border)
        if wrong_b or wrong_u:
            kind = "unblocked-reported-blocked" if wrong_b else "blocked-not-reported"
            key = f"C19/find_blocked_reactions/{kind}"
            if wrong_b and _objective_requirement_mechanism(model, wrong_b, open_ex):
                key = "C19/find_blocked_reactions/unblocked-reported-blocked/objective>=0-requirement-leaks-in"
            acc.violation(
                key,
                f"find_blocked_reactions: reported blocked but can carry flux: {wrong_b[:5]}; blocked but not reported: {wrong_u[:5]}",
                dict(ident, wrongly_blocked=wrong_b, missed=wrong_u, start_recipe=wrec()),
            )
            continue
        if want and len(want) < len(want_ids):
            acc.nontrivial(sig, "find_blocked", open_ex, form)
    d = observe.snapshot_diff(snap, observe.snapshot(model))
    if d:
        acc.violation("C19/find_blocked_reactions/model-modified", f"model changed: {d[0]}", dict(ident0, diffs=d[:5]))
        return

    # ---------------------------------------------------------------- fastcc
    ex, border = blocked(False)
    if ex is None or border:
        return
    ident = dict(ident0, method="fastcc")
    acc.journal(dict(ident, about_to_run="fastcc"))
    try:
        with warnings.catch_warnings():
            warnings.simplefilter("ignore")
            cm = fastcc(model)
    except Exception as e:
        acc.ev()
        acc.violation(f"C19/fastcc/raised/{type(e).__name__}", f"fastcc raised {type(e).__name__}: {str(e)[:160]}", dict(ident, start_recipe=wrec()))
        return
    acc.ev()
    acc.count("fastcc_calls")
    acc.count("reactions_classified_exactly", len(rids))
    kept = {r.id for r in cm.reactions}
    unblocked = {rid for rid in rids if not ex[rid]}
    dropped = sorted(unblocked - kept)
    kept_blocked = sorted(kept - unblocked)
    w = lambda **k: dict(ident, kept=sorted(kept), unblocked=sorted(unblocked), start_recipe=wrec(), **k)
    if kept_blocked:
        acc.violation("C19/fastcc/keeps-blocked-reaction", f"fastcc kept blocked reactions {kept_blocked[:5]}", w(kept_blocked=kept_blocked))
        return
    if dropped:
        rev = [rid for rid in dropped if model.reactions.get_by_id(rid).reversibility]
        irr = [rid for rid in dropped if rid not in rev]
        if irr:
            key = "C19/fastcc/drops-unblocked-irreversible-reaction"
        else:
            key = "C19/fastcc/drops-unblocked-reversible-reaction"
        acc.violation(key, f"fastcc dropped reactions that can carry flux: reversible {rev[:5]}, irreversible {irr[:5]}", w(dropped_reversible=rev, dropped_irreversible=irr))
        # still check that what was kept is unaltered
    for r in cm.reactions:
        o = model.reactions.get_by_id(r.id)
        same = ({m.id: v for m, v in r.metabolites.items()} == {m.id: v for m, v in o.metabolites.items()} and tuple(r.bounds) == tuple(o.bounds) and r.gene_reaction_rule == o.gene_reaction_rule)
        if not same:
            acc.violation("C19/fastcc/reaction-altered", f"reaction {r.id} differs in the consistent model", w(reaction=r.id))
            return
    d = observe.snapshot_diff(snap, observe.snapshot(model))
    if d:
        acc.violation("C19/fastcc/input-model-modified", f"input model changed: {d[0]}", dict(ident, diffs=d[:5]))
        return
    if not dropped:
        # no blocked reaction left in the result (exact)
        ex2, b2 = exact_blocked(cm)
        if ex2 is not None and any(ex2.values()):
            acc.violation("C19/fastcc/result-contains-blocked-reaction", f"the consistent model still has blocked reactions {[k for k, v in ex2.items() if v][:5]}", w())
            return
    if unblocked and len(unblocked) < len(rids):
        acc.nontrivial(sig, "fastcc")
    if case < 2:
        acc.sample({"n_reactions": len(rids), "blocked": sorted(set(rids) - unblocked), "objective": ident0["objective"], "direction": rec["direction"]})


def _some_range_unbounded(model, rids, open_ex):
    from cv.exactlp import fr

    P = oracles.Problem(model)
    lp = P.copy_lp()
    if open_ex:
        for r in model.exchanges:
            j = P.col[r.id]
            lo, hi = r.bounds
            lp.lo[j] = fr(min(lo, -1000)) if lo != float("-inf") else None
            lp.hi[j] = fr(max(hi, 1000)) if hi != float("inf") else None
    for rid in rids:
        j = P.col[rid]
        if lp.solve({j: 1}, "min").status == "unbounded" or lp.solve({j: 1}, "max").status == "unbounded":
            return True
    return False


def _objective_requirement_mechanism(model, wrongly, open_ex):
    """Proves: the reactions are blocked once  c.v >= 0 (max) / <= 0 (min) is added - the
    requirement find_blocked_reactions inherits from FVA(fraction_of_optimum=0)."""
    from cv.exactlp import fr

    P = oracles.Problem(model)
    lp = P.copy_lp()
    if not P.c:
        return False
    if open_ex:
        for r in model.exchanges:
            j = P.col[r.id]
            lo, hi = r.bounds
            lp.lo[j] = fr(min(lo, -1000)) if lo != float("-inf") else None
            lp.hi[j] = fr(max(hi, 1000)) if hi != float("inf") else None
    if P.direction == "max":
        lp.add_row(P.c, 0, None)
    else:
        lp.add_row(P.c, None, 0)
    for rid in wrongly:
        j = P.col[rid]
        a, b = lp.solve({j: 1}, "min"), lp.solve({j: 1}, "max")
        if not (a.status == "optimal" and b.status == "optimal" and a.obj == 0 and b.obj == 0):
            return False
    return True


def run_shard(desc, acc):
    first = desc.get("first", 0)
    for case in range(first, first + desc["cases"]):
        run_case(desc["base"], case, acc)
        acc.checkpoint()


def replay(w, acc):
    run_case(w["base"], w["case"], acc)
