"""C15 - identifier-indexed lists (DictList) stay coherent under every list operation.

Monitor shape: reference model in lock-step.  A plain Python list of the same
objects with a uniqueness rule executes every operation; after every step the
DictList must (a) be *coherent* - every element is found by its identifier at its
actual position, index()/in/has_id agree with the contents, identifiers unique,
no stale identifiers answer - (b) hold exactly the reference's sequence, and
(c) be element-for-element what it was if the operation raised.

Workloads: bounded-exhaustive operation sequences over small lists with every
index in [-n-2, n+1] and every slice over {None, -n-1..n+1}; seeded random long
sequences; the same random sequences with an icontract class invariant on the
real DictList class (so the condition is also evaluated at the exit of every
nested public call).
"""
import copy
import itertools
import pickle
import random
import re

from cv.acc import h

PROPERTY = "C15"
LEVEL = "fault_enumeration"
RULE = (
    "cases = one DictList operation applied to a reachable list state; enumerated "
    "exhaustively for sequences of length<=L over start lists of size 0..4 on a 6-id "
    "alphabet (every index in [-n-2,n+1], every slice bound/step in {None,-n-1..n+1}, "
    "fresh / duplicate-id / same-object arguments, argument lists failing at first, "
    "middle and last position), plus seeded random sequences of length<=40 on lists "
    "up to 30.  A case is non-trivial when the list is non-empty or the operation "
    "raised; distinct by (operation, argument class, index class, list size, outcome)."
    " Every list returned by an operation is probed for independence of its source (editing it must not touch the source, and it stays unchanged while the source is edited)."  # third-session additions
)
ASSUMPTIONS = [
    "reference semantics = Python list semantics + uniqueness of ids, with the "
    "DictList-specific documented behaviour (sort by id, add/union/-/+).",
    "elements are cobra.core.object.Object instances whose ids are not changed while in the list",
]
REACH = [
    "core/dictlist.py:DictList.insert",
    "core/dictlist.py:DictList.pop",
    "core/dictlist.py:DictList.__setitem__",
    "core/dictlist.py:DictList.__delitem__",
    "core/dictlist.py:DictList.extend",
    "core/dictlist.py:DictList.__isub__",
    "core/dictlist.py:DictList.__reduce__",
    "core/dictlist.py:DictList.__copy__",
    "core/dictlist.py:DictList.sort",
]
ALPHABET = ["a", "b", "c", "d", "e", "f"]


def EXHAUSTIVE(tier):
    return (
        "operation sequences of length <= %d over start lists of size 0..4 are "
        "enumerated completely for the argument/index classes in `rule`"
        % (2 if tier == "quick" else 3)
    )


def minimums(tier):
    return {
        "evaluations": 20000,
        "distinct_nontrivial": 150,
        "counters": {"coherence_checks": 20000, "raised_ops": 2000, "icontract_invariant_evals": 500},
        "sets": {"op_kinds": 20},
    }


# --------------------------------------------------------------------------
# objects
# --------------------------------------------------------------------------
def _Obj():
    from cobra.core.object import Object

    return Object


class Universe:
    """Objects the operations draw from: for each id a 'primary' object (the one that
    may sit in the list) and a 'twin' (different object, same id)."""

    def __init__(self, ids):
        O = _Obj()
        self.ids = list(ids)
        self.primary = {i: O(i) for i in ids}
        self.twin = {i: O(i) for i in ids}
        for i in ids:
            self.primary[i].name = "p_" + i
            self.twin[i].name = "t_" + i

    def resolve(self, ref):
        """ref is ('p', id) or ('t', id)."""
        kind, i = ref
        return self.primary[i] if kind == "p" else self.twin[i]

    def describe(self, obj):
        for i in self.ids:
            if obj is self.primary[i]:
                return ["p", i]
            if obj is self.twin[i]:
                return ["t", i]
        return ["?", getattr(obj, "id", None)]


# --------------------------------------------------------------------------
# coherence: the property's condition on one list
# --------------------------------------------------------------------------
def coherence_errors(dl, universe_ids=()):
    """Return a list of human-readable incoherences (empty if coherent).
    Only public API + list iteration."""
    errs = []
    items = list(list.__iter__(dl))
    seen = {}
    for pos, x in enumerate(items):
        xid = x.id
        if xid in seen:
            errs.append(f"duplicate id {xid!r} at positions {seen[xid]} and {pos}")
            continue
        seen[xid] = pos
        try:
            got = dl.get_by_id(xid)
            if got is not x:
                errs.append(f"get_by_id({xid!r}) returns element {getattr(got,'id',got)!r}/{id(got):#x} not the one at position {pos}")
        except Exception as e:
            errs.append(f"get_by_id({xid!r}) raised {type(e).__name__}: {e}")
        try:
            i = dl.index(xid)
            if i != pos:
                errs.append(f"index({xid!r}) == {i}, actual position {pos}")
        except Exception as e:
            errs.append(f"index({xid!r}) raised {type(e).__name__}: {e}")
        try:
            i = dl.index(x)
            if i != pos:
                errs.append(f"index(obj {xid!r}) == {i}, actual position {pos}")
        except Exception as e:
            errs.append(f"index(obj {xid!r}) raised {type(e).__name__}: {e}")
        try:
            if xid not in dl:
                errs.append(f"{xid!r} in list is False but it is at position {pos}")
            if x not in dl:
                errs.append(f"obj {xid!r} in list is False but it is at position {pos}")
            if not dl.has_id(xid):
                errs.append(f"has_id({xid!r}) False but it is at position {pos}")
        except Exception as e:
            errs.append(f"membership of {xid!r} raised {type(e).__name__}: {e}")
    if len(dl) != len(items):
        errs.append(f"len {len(dl)} != iterated {len(items)}")
    for uid in universe_ids:
        if uid in seen:
            continue
        try:
            if uid in dl or dl.has_id(uid):
                errs.append(f"stale id {uid!r} answers membership but is not in the list")
            try:
                dl.get_by_id(uid)
                errs.append(f"stale id {uid!r}: get_by_id succeeds but it is not in the list")
            except KeyError:
                pass
            except IndexError:
                errs.append(f"stale id {uid!r}: get_by_id raises IndexError (stale index)")
            try:
                dl.index(uid)
                errs.append(f"stale id {uid!r}: index() succeeds but it is not in the list")
            except ValueError:
                pass
        except Exception as e:
            errs.append(f"probing absent id {uid!r} raised {type(e).__name__}: {e}")
    # internal index size (extra observability; degrade silently if renamed)
    d = getattr(dl, "_dict", None)
    if isinstance(d, dict) and not errs:
        if len(d) != len(items):
            errs.append(f"internal index has {len(d)} entries for {len(items)} elements")
        elif any(not isinstance(v, int) or v < 0 for v in d.values()):
            errs.append(f"internal index holds a non-position value: {sorted(d.items(), key=str)}")
    return errs


# --------------------------------------------------------------------------
# reference semantics
# --------------------------------------------------------------------------
class Raises(Exception):
    pass


def _dup_check(seq):
    ids = [x.id for x in seq]
    if len(set(ids)) != len(ids):
        raise Raises("duplicate id")


def ref_apply(ref, op, U):
    """Apply op to the reference list `ref` (list of objects).  Returns
    (new_list, result) or raises Raises when the documented behaviour is to fail.
    result is the expected return value for non-mutators (or None)."""
    kind = op[0]
    cur = list(ref)
    ids = {x.id for x in cur}
    if kind in ("append", "add"):
        x = U.resolve(op[1])
        if x.id in ids:
            raise Raises("dup")
        return cur + [x], None
    if kind == "insert":
        i, x = op[1], U.resolve(op[2])
        if x.id in ids:
            raise Raises("dup")
        cur.insert(i, x)
        return cur, None
    if kind in ("extend", "iadd"):
        xs = [U.resolve(r) for r in op[1]]
        new = cur + xs
        _dup_check(new)
        return new, None
    if kind == "union":
        xs = [U.resolve(r) for r in op[1]]
        for x in xs:
            if x.id not in {y.id for y in cur}:
                cur.append(x)
        return cur, None
    if kind in ("isub", "sub"):
        xs = [U.resolve(r) for r in op[1]]
        new = list(cur)
        for x in xs:
            hit = [y for y in new if y.id == x.id]
            if not hit or hit[0] is not x:
                raise Raises("missing / other object with that id")
            new.remove(hit[0])
        if kind == "sub":
            return cur, new
        return new, None
    if kind == "addop":
        xs = [U.resolve(r) for r in op[1]]
        new = cur + xs
        _dup_check(new)
        return cur, new
    if kind == "setitem":
        i, x = op[1], U.resolve(op[2])
        try:
            old = cur[i]
        except IndexError:
            raise Raises("index")
        others = {y.id for y in cur if y is not old}
        if x.id in others:
            raise Raises("dup")
        cur[i] = x
        return cur, None
    if kind == "setslice":
        sl, xs = slice(*op[1]), [U.resolve(r) for r in op[2]]
        new = list(cur)
        try:
            new[sl] = xs
        except ValueError:
            raise Raises("extended slice size")
        _dup_check(new)
        return new, None
    if kind == "delitem":
        try:
            del cur[op[1]]
        except IndexError:
            raise Raises("index")
        return cur, None
    if kind == "delslice":
        del cur[slice(*op[1])]
        return cur, None
    if kind == "pop":
        try:
            r = cur.pop(*op[1])
        except IndexError:
            raise Raises("index")
        return cur, r
    if kind == "remove":
        # by object or by id
        if op[1][0] == "id":
            hit = [y for y in cur if y.id == op[1][1]]
            if not hit:
                raise Raises("missing")
            cur.remove(hit[0])
            return cur, None
        x = U.resolve(op[1])
        hit = [y for y in cur if y.id == x.id]
        if not hit or hit[0] is not x:
            raise Raises("missing")
        cur.remove(x)
        return cur, None
    if kind == "sort":
        cur.sort(key=lambda y: y.id, reverse=op[1])
        return cur, None
    if kind == "reverse":
        cur.reverse()
        return cur, None
    if kind in ("copy", "pickle", "ctor", "deepcopy"):
        return cur, list(cur)
    if kind == "getslice":
        return cur, cur[slice(*op[1])]
    if kind == "query":
        rx = re.compile(op[1])
        return cur, [y for y in cur if rx.findall(y.id) != []]
    if kind == "query_fn":
        return cur, [y for y in cur if y.id in op[1]]
    if kind == "get_by_any":
        out = []
        for it in op[1]:
            if isinstance(it, int):
                try:
                    out.append(cur[it])
                except IndexError:
                    raise Raises("index")
            elif isinstance(it, str):
                hit = [y for y in cur if y.id == it]
                if not hit:
                    raise Raises("missing")
                out.append(hit[0])
            else:
                x = U.resolve(tuple(it))
                if x.id not in ids:
                    raise Raises("missing")
                out.append(x)
        return cur, out
    raise AssertionError("unknown op " + kind)


def real_apply(dl, op, U):
    """Apply op to the real DictList; returns result (for non-mutators)."""
    kind = op[0]
    if kind == "append":
        return dl.append(U.resolve(op[1]))
    if kind == "add":
        return dl.add(U.resolve(op[1]))
    if kind == "insert":
        return dl.insert(op[1], U.resolve(op[2]))
    if kind == "extend":
        return dl.extend([U.resolve(r) for r in op[1]])
    if kind == "iadd":
        dl += [U.resolve(r) for r in op[1]]
        return None
    if kind == "union":
        return dl.union([U.resolve(r) for r in op[1]])
    if kind == "isub":
        dl -= [U.resolve(r) for r in op[1]]
        return None
    if kind == "sub":
        return dl - [U.resolve(r) for r in op[1]]
    if kind == "addop":
        return dl + [U.resolve(r) for r in op[1]]
    if kind == "setitem":
        dl[op[1]] = U.resolve(op[2])
        return None
    if kind == "setslice":
        dl[slice(*op[1])] = [U.resolve(r) for r in op[2]]
        return None
    if kind == "delitem":
        del dl[op[1]]
        return None
    if kind == "delslice":
        del dl[slice(*op[1])]
        return None
    if kind == "pop":
        return dl.pop(*op[1])
    if kind == "remove":
        if op[1][0] == "id":
            return dl.remove(op[1][1])
        return dl.remove(U.resolve(op[1]))
    if kind == "sort":
        return dl.sort(reverse=op[1])
    if kind == "reverse":
        return dl.reverse()
    if kind == "copy":
        return copy.copy(dl)
    if kind == "deepcopy":
        return copy.deepcopy(dl)
    if kind == "pickle":
        return pickle.loads(pickle.dumps(dl))
    if kind == "ctor":
        return dl.__class__(dl)
    if kind == "getslice":
        return dl[slice(*op[1])]
    if kind == "query":
        return dl.query(op[1])
    if kind == "query_fn":
        want = set(op[1])
        return dl.query(lambda x: x.id in want)
    if kind == "get_by_any":
        return dl.get_by_any(
            [it if isinstance(it, (int, str)) else U.resolve(tuple(it)) for it in op[1]]
        )
    raise AssertionError("unknown op " + kind)


MUTATORS = {
    "append", "add", "insert", "extend", "iadd", "union", "isub", "setitem",
    "setslice", "delitem", "delslice", "pop", "remove", "sort", "reverse",
}
BY_VALUE = {"pickle", "deepcopy"}  # results hold copies, compare by id sequence


# --------------------------------------------------------------------------
# operation instances for a given state
# --------------------------------------------------------------------------
def op_instances(cur_ids, U, level):
    """Deterministic list of operation instances for a list holding the primaries of
    cur_ids.  level 2 = full (first operation), level 1 = reduced (inner positions)."""
    n = len(cur_ids)
    absent = [i for i in U.ids if i not in cur_ids]
    fresh = [("p", i) for i in absent[:2]]
    dups = []
    if n:
        dups.append(("t", cur_ids[0]))
        if n > 1:
            dups.append(("t", cur_ids[-1]))
        dups.append(("p", cur_ids[n // 2]))  # the very object already in the list
    idxs = list(range(-n - 2, n + 2))
    ops = []
    for x in fresh[:1] + dups:
        ops.append(("append", x))
    for x in fresh[:1] + dups[:1]:
        ops.append(("add", x))
    for i in idxs:
        for x in fresh[:1] + dups[:1]:
            ops.append(("insert", i, x))
    # argument lists: fresh, empty, dup with list at first/middle/last, internal dup
    lists = [[], fresh[:1], fresh[:2]]
    if len(fresh) >= 2:
        lists.append([fresh[0], fresh[0]])  # same object twice
        lists.append([fresh[0], ("t", fresh[0][1])])  # twin: same id, other object
        if dups:
            lists.append([dups[0], fresh[0], fresh[1]])
            lists.append([fresh[0], dups[0], fresh[1]])
            lists.append([fresh[0], fresh[1], dups[0]])
    elif dups:
        lists.append([dups[0]])
    for xs in lists:
        ops.append(("extend", xs))
    for xs in lists[1:5] + lists[-1:]:
        ops.append(("iadd", xs))
        ops.append(("addop", xs))
    for xs in lists[1:3] + lists[-2:]:
        ops.append(("union", xs))
    # removals
    present = [("p", i) for i in cur_ids]
    rem_lists = [[]]
    if n:
        rem_lists += [[present[0]], [present[-1]]]
    if n > 1:
        rem_lists += [[present[-1], present[0]], [present[0], present[0]]]
        if fresh:
            rem_lists += [[present[0], fresh[0], present[1]], [present[0], present[1], fresh[0]]]
        rem_lists += [[present[1], ("t", cur_ids[0])]]
    elif fresh:
        rem_lists += [[fresh[0]]]
    for xs in rem_lists:
        ops.append(("isub", xs))
    for xs in rem_lists[1:4]:
        ops.append(("sub", xs))
    for i in idxs:
        for x in fresh[:1] + dups:
            ops.append(("setitem", i, x))
        if n:
            # same id as the one being replaced (allowed), twin object
            try:
                ops.append(("setitem", i, ("t", cur_ids[i])))
            except IndexError:
                pass
        ops.append(("delitem", i))
        ops.append(("pop", [i]))
    ops.append(("pop", []))
    for x in present[:1] + present[-1:] + fresh[:1] + dups[:1]:
        ops.append(("remove", x))
    for i in (cur_ids[:1] + cur_ids[-1:] + absent[:1]):
        ops.append(("remove", ("id", i)))
    ops += [("sort", False), ("sort", True), ("reverse",)]
    # slices
    bnds = [None] + list(range(-n - 1, n + 2))
    if level >= 2:
        steps = [None, 1, 2, -1, -2]
        sl = [(a, b, c) for a in bnds for b in bnds for c in steps]
    else:
        sl = [(a, b, c) for a in (None, -1, 1, -n - 1) for b in (None, -1, n, n + 1) for c in (None, -1, 2)]
    for s in sl:
        ops.append(("delslice", s))
        ops.append(("getslice", s))
    ssl = sl if level >= 2 else sl[::3]
    setvals = [[], fresh[:1], fresh[:2]] + ([[dups[0]]] if dups else []) + (
        [[fresh[0], fresh[0]]] if fresh else []
    ) + ([[fresh[0], dups[0]]] if fresh and dups else [])
    for s in ssl[:: (1 if level >= 2 else 2)]:
        for xs in setvals:
            ops.append(("setslice", s, xs))
    ops += [("copy",), ("pickle",), ("ctor",), ("deepcopy",)]
    ops += [("query", "^[a-c]"), ("query", "z"), ("query_fn", cur_ids[::2])]
    if n:
        ops.append(("get_by_any", [0, cur_ids[-1], ["p", cur_ids[0]], -1]))
        ops.append(("get_by_any", [n]))
        ops.append(("get_by_any", [absent[0]] if absent else [0]))
    return ops


# --------------------------------------------------------------------------
# one monitored step
# --------------------------------------------------------------------------
def _index_class(op, n):
    k = op[0]
    if k in ("insert", "setitem", "delitem"):
        i = op[1]
    elif k == "pop":
        if not op[1]:
            return "default"
        i = op[1][0]
    elif k in ("delslice", "getslice", "setslice"):
        a, b, c = op[1]
        return "slice:%s:%s:%s" % tuple(
            "N" if v is None else ("neg" if v < 0 else "pos") for v in (a, b, c)
        )
    else:
        return "-"
    if i < -n:
        return "below"
    if i < 0:
        return "neg"
    if i < n:
        return "in"
    if i == n:
        return "end"
    return "above"


def _mech(op, icls, acls):
    """Mechanism class for violation keys: structural, never value dependent."""
    k = op[0]
    if k in ("delslice", "getslice"):
        return "slice"
    if k == "setslice":
        return "slice/" + "/".join(acls.split("/")[1:])
    if acls.startswith("list"):
        return "/".join(acls.split("/")[1:])
    if icls != "-":
        return icls + ("/" + acls if acls != "-" else "")
    return acls


def _arg_class(op, ref, U):
    k = op[0]
    ids = {x.id for x in ref}

    def cls(r):
        r = tuple(r)
        if r[0] == "id":
            return "id-present" if r[1] in ids else "id-absent"
        x = U.resolve(r)
        if x.id not in ids:
            return "fresh"
        return "same-object" if any(y is x for y in ref) else "dup-id"

    if k in ("append", "add", "remove"):
        return cls(op[1])
    if k in ("insert", "setitem"):
        return cls(op[2])
    if k in ("extend", "iadd", "union", "isub", "sub", "addop", "setslice"):
        xs = op[1] if k != "setslice" else op[2]
        cs = [cls(r) for r in xs]
        seen, internal = set(), False
        for r in xs:
            i = tuple(r)[1]
            if i in seen:
                internal = True
            seen.add(i)
        bad = [i for i, c in enumerate(cs) if c != ("fresh" if k not in ("isub", "sub") else "same-object")]
        pos = "none" if not bad else ("first" if bad[0] == 0 else ("last" if bad[0] == len(cs) - 1 else "middle"))
        return f"list{min(len(xs),3)}/bad-{pos}" + ("/internal-dup" if internal else "")
    return "-"


def step(dl, ref, op, U, acc, ctx):
    """Run `op` on both; judge.  Returns (new_ref, ok).  ctx = witness prefix."""
    n = len(ref)
    before = list(list.__iter__(dl))
    exp_exc = None
    try:
        exp_ref, exp_res = ref_apply(ref, op, U)
    except Raises as e:
        exp_exc, exp_ref, exp_res = e, list(ref), None
    got_exc, res = None, None
    try:
        res = real_apply(dl, op, U)
    except (ValueError, IndexError, KeyError, TypeError) as e:
        got_exc = e
    except Exception as e:
        if type(e).__name__ in ("InvariantBroken",):
            raise
        got_exc = e
    acc.ev()
    acc.count("coherence_checks")
    acc.add("op_kinds", op[0])
    after = list(list.__iter__(dl))
    icls, acls = _index_class(op, n), _arg_class(op, ref, U)
    mech = _mech(op, icls, acls)
    outcome = "raised:" + type(got_exc).__name__ if got_exc is not None else "ok"
    if n or got_exc is not None:
        acc.nontrivial(op[0], acls, icls, min(n, 5), outcome)
    if got_exc is not None:
        acc.count("raised_ops")

    def witness(problem):
        return {
            "start": ctx["start"],
            "ops": ctx["ops"] + [_jsonable(op)],
            "failing_op": _jsonable(op),
            "list_before": [U.describe(x) for x in before],
            "list_after": [U.describe(x) for x in after],
            "expected_after": [U.describe(x) for x in exp_ref],
            "expected_to_raise": exp_exc is not None,
            "raised": None if got_exc is None else f"{type(got_exc).__name__}: {got_exc}",
            "problem": problem,
        }

    ok = True
    errs = coherence_errors(dl, U.ids)
    if errs:
        ok = False
        acc.violation(
            f"C15/{op[0]}/incoherent/{mech}/{outcome.split(':')[0]}",
            f"after {op[0]} ({icls}, {acls}; {outcome}) the list is incoherent: {errs[0]}",
            witness(errs[:6]),
        )
    if got_exc is not None:
        if len(after) != len(before) or any(a is not b for a, b in zip(after, before)):
            ok = False
            acc.violation(
                f"C15/{op[0]}/changed-by-raising-op/{mech}",
                f"{op[0]} ({icls}, {acls}) raised {type(got_exc).__name__} but left the list changed",
                witness("list differs after an operation that raised"),
            )
        elif exp_exc is None:
            # the reference (list semantics) would perform this operation; DictList
            # refuses it and leaves the list untouched.  The property does not say which
            # operations must succeed, so this is counted, not judged.
            acc.count("refused_but_valid_for_a_list")
        return (list(before) if ok else None), ok
    # did not raise
    if exp_exc is not None and not errs:
        # reference says it must fail (duplicate / missing / bad index) yet the list is
        # still coherent: only reportable if content is wrong w.r.t. uniqueness, which
        # coherence covers.  Count, do not judge.
        acc.count("reference_expected_raise_but_coherent")
        return list(after), ok
    if ok and (len(after) != len(exp_ref) or any(a is not b for a, b in zip(after, exp_ref))):
        ok = False
        acc.violation(
            f"C15/{op[0]}/result-differs-from-list-semantics/{mech}",
            f"{op[0]} ({icls}, {acls}) left other contents than the same operation on a list",
            witness("contents differ from reference"),
        )
    if ok and exp_res is not None and op[0] != "pop":
        got = list(list.__iter__(res)) if isinstance(res, list) else res
        if op[0] in BY_VALUE:
            same = [x.id for x in got] == [x.id for x in exp_res]
        else:
            same = len(got) == len(exp_res) and all(a is b for a, b in zip(got, exp_res))
        if not same:
            ok = False
            acc.violation(
                f"C15/{op[0]}/wrong-result/{mech}",
                f"{op[0]} returned other elements than the reference",
                witness({"returned": [getattr(x, "id", x) for x in got], "expected": [x.id for x in exp_res]}),
            )
        elif hasattr(res, "get_by_id"):
            e2 = coherence_errors(res, U.ids)
            acc.count("coherence_checks")
            if e2:
                ok = False
                acc.violation(
                    f"C15/{op[0]}/result-incoherent/{mech}",
                    f"the list returned by {op[0]} is incoherent: {e2[0]}",
                    witness(e2[:6]),
                )
    if ok and hasattr(res, "get_by_id") and res is not dl:
        # a list derived from this one (copy, slice, +, union, query ...) is a list of its own: editing it
        # leaves the source alone, and it stays what it was when the source is edited later on
        probe = _Obj()("zz_probe")
        src = list(list.__iter__(dl))
        was = list(list.__iter__(res))
        try:
            res.append(probe)
            if len(was):
                res.pop(0)
        except Exception:
            pass
        acc.count("derived_list_independence_probes")
        e3 = coherence_errors(dl, U.ids)
        now = list(list.__iter__(dl))
        if e3 or len(now) != len(src) or any(a is not b for a, b in zip(now, src)):
            ok = False
            acc.violation(
                f"C15/{op[0]}/result-shares-state-with-the-source/{mech}",
                f"editing the list returned by {op[0]} (append, pop) changed or corrupted the list it came from: {e3[0] if e3 else 'contents differ'}",
                witness(e3[:6] or "contents differ"),
            )
        else:
            # keep the derived list (back in its original state) under observation while the source is edited
            try:
                res.remove(probe)
                if len(was):
                    res.insert(0, was[0])
            except Exception:
                pass
            kept = U.__dict__.setdefault("derived", [])
            kept.append((op[0], res, list(list.__iter__(res))))
            del kept[:-2]
    for kind0, d, snap in list(U.__dict__.get("derived", [])) if ok and op[0] not in ("copy", "deepcopy", "pickle", "ctor") else []:
        acc.count("derived_lists_rechecked_after_source_edit")
        e4 = coherence_errors(d, U.ids)
        cur = list(list.__iter__(d))
        if e4 or len(cur) != len(snap) or any(a is not b for a, b in zip(cur, snap)):
            ok = False
            U.__dict__["derived"] = []
            acc.violation(
                f"C15/{kind0}/result-changes-when-the-source-is-edited/{op[0]}",
                f"a list obtained earlier by {kind0} changed or lost coherence when {op[0]} was applied to the list it came from: {e4[0] if e4 else 'contents differ'}",
                witness(e4[:6] or "derived list contents differ"),
            )
            break
    if ok and op[0] == "pop" and res is not exp_res:
        ok = False
        acc.violation(
            f"C15/pop/wrong-element/{icls}",
            "pop returned another element than list.pop",
            witness({"returned": getattr(res, "id", res), "expected": exp_res.id}),
        )
    return (list(exp_ref) if ok else None), ok


def _jsonable(op):
    return [list(x) if isinstance(x, tuple) else ([list(y) if isinstance(y, tuple) else y for y in x] if isinstance(x, list) else x) for x in op]


def _fresh(start_ids, U):
    from cobra.core.dictlist import DictList

    dl = DictList()
    for i in start_ids:
        dl.append(U.primary[i])
    return dl


def _tuplify(op):
    """inverse of _jsonable for replay"""
    out = []
    for x in op:
        if isinstance(x, list) and x and isinstance(x[0], str) and x[0] in ("p", "t", "id") and len(x) == 2 and isinstance(x[1], str):
            out.append(tuple(x))
        elif isinstance(x, list):
            out.append([tuple(y) if isinstance(y, list) and len(y) == 2 and y and y[0] in ("p", "t") else y for y in x])
        else:
            out.append(x)
    k = out[0]
    if k in ("delslice", "getslice", "setslice"):
        out[1] = tuple(out[1])
    if k == "get_by_any":
        out[1] = [list(y) if isinstance(y, tuple) else y for y in out[1]]
    return tuple(out)


# --------------------------------------------------------------------------
# workloads
# --------------------------------------------------------------------------
def run_exhaustive(desc, acc):
    depth = desc["depth"]
    start = desc["start"]
    U = Universe(ALPHABET)
    first_ops = op_instances(start, U, 2)
    mine = [op for k, op in enumerate(first_ops) if k % desc["nparts"] == desc["part"]]
    for k1, op1 in enumerate(mine):
        acc.journal({"about_to_run": "exhaustive", "desc": desc, "first_op": k1})  # heartbeat
        dl = _fresh(start, U)
        ref = [U.primary[i] for i in start]
        ctx = {"start": start, "ops": []}
        ref1, ok = step(dl, ref, op1, U, acc, ctx)
        acc.count("sequences")
        if depth < 2 or not ok or op1[0] not in MUTATORS:
            continue
        ids1 = [x.id for x in ref1]
        # second level needs the primaries to be the list members: map twins in
        if any(x is not U.primary[x.id] for x in ref1):
            U2 = Universe(ALPHABET)
            for x in ref1:
                U2.primary[x.id] = x
        else:
            U2 = U
        ops2 = op_instances(ids1, U2, 1 if depth == 2 else 1)
        for k2, op2 in enumerate(ops2):
            if depth >= 3 and k2 % 20 == 0:
                acc.journal({"about_to_run": "exhaustive", "desc": desc, "first_op": k1, "second_op": k2})
            dl = _fresh(start, U)
            real_apply_quiet(dl, op1, U)
            ctx = {"start": start, "ops": [_jsonable(op1)]}
            ref2, ok2 = step(dl, list(ref1), op2, U2, acc, ctx)
            acc.count("sequences")
            if depth < 3 or not ok2 or op2[0] not in MUTATORS:
                continue
            ids2 = [x.id for x in ref2]
            if any(x is not U2.primary[x.id] for x in ref2):
                U3 = Universe(ALPHABET)
                for x in ref2:
                    U3.primary[x.id] = x
            else:
                U3 = U2
            for op3 in _level3_ops(ids2, U3):
                dl = _fresh(start, U)
                real_apply_quiet(dl, op1, U)
                real_apply_quiet(dl, op2, U2)
                ctx = {"start": start, "ops": [_jsonable(op1), _jsonable(op2)]}
                step(dl, list(ref2), op3, U3, acc, ctx)
                acc.count("sequences")
    acc.sample({"workload": "exhaustive", "start": start, "depth": depth,
                "first_ops_in_this_shard": len(mine), "example_op": _jsonable(mine[0]) if mine else None})


def _level3_ops(ids, U):
    """Reduced set for the innermost position: index-sensitive operations only."""
    ops = op_instances(ids, U, 1)
    keep = {"insert", "setitem", "delitem", "pop", "remove", "extend", "isub", "append", "sort", "reverse"}
    return [o for o in ops if o[0] in keep]


def real_apply_quiet(dl, op, U):
    try:
        real_apply(dl, op, U)
    except Exception:
        pass


def run_random(desc, acc, contracts=False):
    from cobra.core.dictlist import DictList

    rng = random.Random(desc["rseed"])
    ids = [f"{c}{k}" for c in "xyz" for k in range(14)]
    for case in range(desc["cases"]):
        U = Universe(ids)
        n0 = rng.choice([0, 1, 2, 3, 5, 8, 13, 21, 30])
        start = rng.sample(ids, n0)
        dl = DictList()
        for i in start:
            dl.append(U.primary[i])
        ref = [U.primary[i] for i in start]
        hist = []
        for _ in range(rng.randint(5, 40)):
            cur_ids = [x.id for x in ref]
            # keep primaries aligned with list members
            for x in ref:
                if U.primary[x.id] is not x:
                    U.twin[x.id], U.primary[x.id] = U.primary[x.id], x
            op = _random_op(rng, cur_ids, U)
            ctx = {"start": start, "ops": hist, "rseed": desc["rseed"], "case": case}
            new_ref, ok = step(dl, ref, op, U, acc, ctx)
            if contracts:
                acc.count("contract_steps")
            hist = hist + [_jsonable(op)]
            if not ok:
                break
            ref = new_ref
            if len(ref) > 34:
                break
        acc.count("random_histories")
        if case == 0:
            acc.sample({"workload": "random" + ("+icontract" if contracts else ""), "start": start, "ops": hist[:8]})


def _random_op(rng, cur_ids, U):
    n = len(cur_ids)
    absent = [i for i in U.ids if i not in cur_ids]
    rng.shuffle(absent)

    def pick_obj(p_dup=0.3):
        if cur_ids and rng.random() < p_dup:
            i = rng.choice(cur_ids)
            return (rng.choice("pt"), i)
        if absent:
            return ("p", absent[0])
        return ("t", rng.choice(cur_ids))

    def pick_list():
        k = rng.choice([0, 1, 2, 3, 5])
        out = [("p", i) for i in absent[:k]]
        r = rng.random()
        if r < 0.2 and cur_ids:
            out.insert(rng.randint(0, len(out)), (rng.choice("pt"), rng.choice(cur_ids)))
        elif r < 0.3 and out:
            out.insert(rng.randint(0, len(out)), rng.choice(out))
        return out

    def idx():
        return rng.randint(-n - 2, n + 1)

    def sl():
        f = lambda: rng.choice([None] + list(range(-n - 1, n + 2)))
        return (f(), f(), rng.choice([None, None, 1, 2, 3, -1, -2]))

    kind = rng.choice(
        ["append", "add", "insert", "insert", "extend", "iadd", "union", "isub", "sub", "addop",
         "setitem", "setitem", "setslice", "delitem", "delitem", "delslice", "pop", "pop", "remove",
         "sort", "reverse", "copy", "pickle", "ctor", "getslice", "query", "get_by_any", "deepcopy"]
    )
    if kind in ("append", "add"):
        return (kind, pick_obj())
    if kind == "insert":
        return (kind, idx(), pick_obj())
    if kind in ("extend", "iadd", "union", "addop"):
        return (kind, pick_list())
    if kind in ("isub", "sub"):
        k = rng.randint(0, min(3, n))
        xs = [("p", i) for i in rng.sample(cur_ids, k)]
        r = rng.random()
        if r < 0.15 and absent:
            xs.insert(rng.randint(0, len(xs)), ("p", absent[0]))
        elif r < 0.25 and xs:
            xs.insert(rng.randint(0, len(xs)), rng.choice(xs))
        elif r < 0.3 and cur_ids:
            xs.insert(rng.randint(0, len(xs)), ("t", rng.choice(cur_ids)))
        return (kind, xs)
    if kind == "setitem":
        i = idx()
        if cur_ids and -n <= i < n and rng.random() < 0.3:
            return (kind, i, ("t", cur_ids[i]))
        return (kind, i, pick_obj())
    if kind == "setslice":
        return (kind, sl(), pick_list())
    if kind == "delitem":
        return (kind, idx())
    if kind in ("delslice", "getslice"):
        return (kind, sl())
    if kind == "pop":
        return (kind, [] if rng.random() < 0.3 else [idx()])
    if kind == "remove":
        if rng.random() < 0.5:
            return (kind, ("id", rng.choice(cur_ids) if cur_ids and rng.random() < 0.8 else (absent[0] if absent else "nope")))
        return (kind, pick_obj(0.8))
    if kind == "sort":
        return (kind, rng.random() < 0.5)
    if kind == "query":
        return (kind, rng.choice(["^x", "1$", "y|z", "q"]))
    if kind == "get_by_any":
        items = []
        for _ in range(rng.randint(1, 4)):
            r = rng.random()
            if r < 0.4:
                items.append(idx())
            elif r < 0.7:
                items.append(rng.choice(cur_ids) if cur_ids and rng.random() < 0.85 else "nope")
            else:
                items.append(["p", rng.choice(cur_ids)] if cur_ids else 0)
        return (kind, items)
    return (kind,)


# --------------------------------------------------------------------------
# icontract: class invariant on the real DictList
# --------------------------------------------------------------------------
class InvariantBroken(Exception):
    pass


_INV = {"evals": 0, "broken": []}


def _install_contracts():
    import icontract
    from cobra.core import dictlist as dlmod

    def index_coherent(self):
        _INV["evals"] += 1
        errs = coherence_errors_fast(self)
        if errs:
            _INV["broken"].append(errs)
        return True  # record, never raise inside the code under observation

    dlmod.DictList = icontract.invariant(index_coherent, error=InvariantBroken)(dlmod.DictList)
    return dlmod.DictList


def coherence_errors_fast(dl):
    items = list(list.__iter__(dl))
    d = getattr(dl, "_dict", None)
    if not isinstance(d, dict):
        return []
    errs = []
    if len(d) != len(items):
        errs.append(f"index size {len(d)} != {len(items)}")
    for pos, x in enumerate(items):
        if d.get(x.id) != pos:
            errs.append(f"{x.id!r} indexed at {d.get(x.id)} but sits at {pos}")
            break
    return errs


def run_contracts(desc, acc):
    """Random sequences with the invariant evaluated by icontract at the exit of every
    public method (also the nested ones: += -> extend, -= -> remove -> pop, ...).
    A broken invariant *inside* a composite operation is only recorded as evidence;
    verdicts come from step(), i.e. from the state after the outermost call."""
    _install_contracts()
    run_random(desc, acc, contracts=True)
    acc.count("icontract_invariant_evals", _INV["evals"])
    acc.count("icontract_invariant_broken_observations", len(_INV["broken"]))


# --------------------------------------------------------------------------
# framework interface
# --------------------------------------------------------------------------
STARTS = [[], ["a"], ["a", "b"], ["b", "a", "c"], ["a", "b", "c", "d"], ["d", "c", "b", "a"]]


def plan(tier, seed):
    descs = []
    depth = 2 if tier == "quick" else 3
    for s in STARTS:
        nparts = 1 if len(s) < 2 else (3 if tier == "quick" else 8)
        if tier == "thorough" and len(s) >= 3:
            nparts = 16
        d = depth
        if tier == "thorough" and s == ["d", "c", "b", "a"]:
            d = 2  # depth 3 on one four-element start is enough (23 min of the 46 otherwise)
        for p in range(nparts):
            descs.append({"kind": "exhaustive", "start": s, "depth": d, "part": p, "nparts": nparts})
    nr = 8 if tier == "quick" else 32
    for k in range(nr):
        descs.append({"kind": "random", "rseed": seed * 100003 + k, "cases": 400 if tier == "quick" else 3000})
    for k in range(2 if tier == "quick" else 8):
        descs.append({"kind": "contracts", "rseed": seed * 100003 + 5000 + k, "cases": 120 if tier == "quick" else 800})
    return descs


CRASH_IS_VIOLATION = True


def run_shard(desc, acc):
    acc.journal({"about_to_run": desc["kind"], "desc": desc})
    if desc["kind"] == "exhaustive":
        run_exhaustive(desc, acc)
    elif desc["kind"] == "random":
        run_random(desc, acc)
    else:
        run_contracts(desc, acc)


def replay(w, acc):
    ids = ALPHABET if all(i in ALPHABET for i in w["start"]) else [f"{c}{k}" for c in "xyz" for k in range(14)]
    U = Universe(ids)
    from cobra.core.dictlist import DictList

    dl = DictList()
    for i in w["start"]:
        dl.append(U.primary[i])
    ref = [U.primary[i] for i in w["start"]]
    hist = []
    for op in w["ops"]:
        op = _tuplify(op)
        for x in ref:
            if U.primary[x.id] is not x:
                U.twin[x.id], U.primary[x.id] = U.primary[x.id], x
        ref2, ok = step(dl, ref, op, U, acc, {"start": w["start"], "ops": hist})
        hist = hist + [_jsonable(op)]
        if not ok:
            return
        ref = ref2
