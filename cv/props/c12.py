"""C12 - a copy is equivalent to its original and shares nothing with it.

Monitors: (1) equivalence - whole-state snapshots (content, cross references, raw GLPK
problem, tolerance) of copy and original are equal right after copying; (2) identity -
no reaction, metabolite, gene, group, rule, notes/annotation container (nested lists
included) or solver variable/constraint object is shared, every object points at its
own model; (3) *taint test* - a seeded history of catalogue operations extended with
in-place mutations of every mutable attribute runs on one side while the snapshot of
the other side is compared after every step; then the roles are swapped; (4)
Reaction.copy / Metabolite.copy / + - * leave their operands unchanged and return
detached objects.
"""
import copy
import pickle
import warnings

from cv import gen, hist, observe, ops
from cv.acc import h

PROPERTY = "C12"
LEVEL = "exploration"
RULE = (
    "case = one copy (Model.copy / copy.deepcopy / pickle round trip) of a generated model with "
    "groups, notes, annotations (nested lists), compartments names, user constraints and 0-2 "
    "contexts open at copy time, followed by a 10-step history on the copy and a 10-step history "
    "on the original, the untouched side being compared after every step; plus object-level "
    "copies and arithmetic.  Non-trivial when the history changed the edited side; distinct by "
    "(model hash, copy kind, history hash)."
    " The solver tolerances of the copy are compared with the original's (models with non-default tolerance in 40 % of the cases)."  # third-session additions
)
ASSUMPTIONS = [
    "solver *solution* state (primal values, status, basis) is not part of the compared state",
    "numbers in the copied solver problem are compared with relative tolerance 1e-12 (GLPK text round trip keeps 15 digits)",
]
REACH = [
    "core/model.py:Model.copy",
    "core/model.py:Model.__getstate__",
    "core/model.py:Model.__setstate__",
    "core/reaction.py:Reaction.copy",
    "core/reaction.py:Reaction.__deepcopy__",
    "core/species.py:Species.copy",
    "core/reaction.py:Reaction.__add__",
    "core/reaction.py:Reaction.__mul__",
]
CRASH_IS_VIOLATION = True


def minimums(tier):
    return {
        "evaluations": 3000,
        "distinct_nontrivial": 150,
        "counters": {"copies": 200, "taint_steps_checked": 2500, "identity_checks": 200, "object_level_copies": 400, "inplace_mutations": 300, "copies_with_open_context": 40},
        "sets": {"copy_kinds": 3},
    }


def plan(tier, seed):
    n = 16 if tier == "quick" else 64
    per = 16 if tier == "quick" else 110
    return [{"cases": per, "base": seed * 1000003 + k} for k in range(n)]


# ---------------------------------------------------------------------------
# in-place mutations of mutable attributes (extra operations for the taint test)
# ---------------------------------------------------------------------------
def _walk(c, path, out, depth=0):
    """every mutable container reachable from c (any depth) -> out[id] = path"""
    if depth > 6:
        return
    if isinstance(c, dict):
        out[id(c)] = path
        for k, v in c.items():
            _walk(v, f"{path}[{k!r}]", out, depth + 1)
    elif isinstance(c, (list, set)):
        out[id(c)] = path
        for i, v in enumerate(c):
            _walk(v, f"{path}[{i}]", out, depth + 1)


def _deep_lists(c, depth=0):
    """innermost mutable lists / dicts below the first level of a notes/annotation dict"""
    out = []
    if depth > 6:
        return out
    vals = c.values() if isinstance(c, dict) else (c if isinstance(c, list) else [])
    for v in vals:
        if isinstance(v, (list, dict)):
            if depth >= 1:
                out.append(v)
            out += _deep_lists(v, depth + 1)
    return out


def decorate_deep(rng, model):
    """Values nested two and three levels deep: the documented qualifier form of an
    annotation {provider: [[qualifier, entity], ...]} and structured notes."""
    pool = [model] + list(model.reactions)[:5] + list(model.metabolites)[:5] + list(model.genes)[:3] + list(model.groups)[:2]
    for x in pool:
        if rng.random() < 0.5:
            x.annotation["deep.db"] = [["is", "X1"], ["hasPart", "X2"]]
        if rng.random() < 0.4:
            x.notes["deep"] = {"a": [1, {"b": 2}], "c": ["x", ["y"]]}


def _containers(x):
    return [c for c in (getattr(x, "notes", None), getattr(x, "annotation", None)) if isinstance(c, dict)]


def inplace_mutation(H):
    rng, m = H.rng, H.model
    pool = [m] + list(m.reactions)[:6] + list(m.metabolites)[:6] + list(m.genes)[:4] + list(m.groups)[:2]
    x = rng.choice(pool)
    kind = rng.choice(["notes-set", "annotation-set", "annotation-list-append", "compartments", "group-members", "name", "annotation-del", "deep-edit", "deep-edit"])
    if kind == "deep-edit":
        deep = []
        for c in _containers(x):
            deep += _deep_lists(c)
        if not deep:
            raise ops.Skip()
        v = rng.choice(deep)
        if isinstance(v, list):
            v.append("TAINT")
        else:
            v["TAINT"] = 1
    elif kind == "notes-set":
        x.notes["tainted"] = "yes"
    elif kind == "annotation-set":
        x.annotation["tainted.db"] = "T1"
    elif kind == "annotation-list-append":
        lists = [(k, v) for k, v in x.annotation.items() if isinstance(v, list)]
        if not lists:
            x.annotation["tainted.list"] = ["a"]
        else:
            k, v = rng.choice(lists)
            v.append("TAINT")
    elif kind == "annotation-del":
        if x.annotation:
            x.annotation.pop(sorted(x.annotation)[0])
        else:
            raise ops.Skip()
    elif kind == "compartments":
        m.compartments = {"c": "tainted cytosol", "e": "tainted outside"}
    elif kind == "group-members":
        if not len(m.groups) or not len(m.reactions):
            raise ops.Skip()
        g = rng.choice(list(m.groups))
        r = rng.choice(list(m.reactions))
        if r in g.members:
            g.remove_members([r])
        else:
            g.add_members([r])
    else:
        x.name = "tainted name"
    return {"kind": kind, "on": [type(x).__name__, str(getattr(x, "id", None))]}


ops.OPS.setdefault("inplace.mutation", {"fn": inplace_mutation, "tags": {"edit", "inplace"}, "weight": 6.0, "name": "inplace.mutation"})


def identity_problems(a, b):
    """Objects shared between models a and b."""
    probs = []

    def ids_of(model):
        s = {}
        for lst, nm in ((model.reactions, "reaction"), (model.metabolites, "metabolite"), (model.genes, "gene"), (model.groups, "group")):
            for x in lst:
                s[id(x)] = f"{nm} {x.id}"
                for c, cn in ((getattr(x, "notes", None), "notes"), (getattr(x, "annotation", None), "annotation")):
                    if isinstance(c, dict):
                        _walk(c, f"{nm} {x.id}.{cn}", s)
                if nm == "reaction":
                    s[id(x.gpr)] = f"reaction {x.id}.gpr"
                    if getattr(x.gpr, "body", None) is not None:
                        s[id(x.gpr.body)] = f"reaction {x.id}.gpr.body"
                if nm == "group":
                    s[id(x.members)] = f"group {x.id}.members"
        for c, cn in ((model.notes, "notes"), (model.annotation, "annotation")):
            _walk(c, f"model.{cn}", s)
        comp = getattr(model, "_compartments", None)
        if isinstance(comp, dict):
            s[id(comp)] = "model compartments dictionary"
        for v in model.solver.variables:
            s[id(v)] = f"solver variable {v.name}"
        for c in model.solver.constraints:
            s[id(c)] = f"solver constraint {c.name}"
        s[id(model.solver)] = "solver"
        s[id(model.solver.objective)] = "solver objective"
        return s

    A, B = ids_of(a), ids_of(b)
    for k in set(A) & set(B):
        probs.append(f"shared object: {A[k]}")
    for model, nm in ((a, "original"), (b, "copy")):
        for lst in (model.reactions, model.metabolites, model.genes, model.groups):
            for x in lst:
                if getattr(x, "_model", None) is not model:
                    probs.append(f"{nm}: {type(x).__name__} {x.id} does not point at its model")
    return sorted(probs)


def share_class(p):
    p = p.replace("shared object: ", "")
    if p.startswith("model compartments"):
        return "model-compartments-dict"
    if ".notes" in p or ".annotation" in p:
        kind = p.split(" ")[0]
        nested = "[" in p
        return f"{kind}-{'annotation' if '.annotation' in p else 'notes'}" + ("-nested-list" if nested else "-dict")
    parts = p.split(" ")
    return parts[0] + ("-" + parts[1] if p.startswith("solver") and len(parts) > 1 else "")


def run_case(base, case, acc):
    rng = gen.rng_for("C12", base, case)
    with warnings.catch_warnings():
        warnings.simplefilter("ignore")
        model, rec = gen.io_model(rng, id_styles=["plain"], with_groups=True, finite=rng.random() < 0.6)
    decorate_deep(rng, model)
    if rng.random() < 0.35 and len(model.genes) and len(model.reactions):
        # identifiers are unique per kind only: a gene named like a reaction (and like a
        # metabolite), the gene - not the reaction - being member of a group
        import cobra
        from cobra.manipulation import rename_genes

        g = rng.choice(list(model.genes))
        target = rng.choice(list(model.reactions)).id if rng.random() < 0.7 or not len(model.metabolites) else rng.choice(list(model.metabolites)).id
        try:
            rename_genes(model, {g.id: target})
            model.add_groups([cobra.core.Group("clash_group", name="same id, other kind", members=[model.genes.get_by_id(target)])])
            acc.count("models_with_id_shared_between_kinds")
        except Exception:
            pass
    H0 = ops.Hist(model, rng)
    # user constraints / variables
    for _ in range(rng.randint(0, 2)):
        try:
            ops.OPS["model.add_cons_vars"]["fn"](H0)
        except Exception:
            pass
    if rng.random() < 0.4 and len(model.genes):
        # state that lives on the objects, not in their definition: knocked-out genes
        for g in rng.sample(list(model.genes), min(len(model.genes), rng.randint(1, 2))):
            g.knock_out()
        acc.count("copies_of_models_with_knocked_out_genes")
    if rng.random() < 0.4:
        model.tolerance = rng.choice([1e-9, 1e-8, 1e-6])
        acc.count("copies_of_models_with_a_non_default_tolerance")
    open_ctx = rng.choice([0, 0, 1, 2])
    for _ in range(open_ctx):
        model.__enter__()
        try:
            ops.OPS[rng.choice(["reaction.bounds=", "reaction.knock_out", "model.objective="])]["fn"](H0)
        except Exception:
            pass
    kind = rng.choice(["copy", "deepcopy", "pickle"])
    acc.add("copy_kinds", kind)
    ident = {"base": base, "case": case, "copy_kind": kind, "open_contexts": open_ctx}
    acc.journal(dict(ident, about_to_run="copy"))
    s_orig = observe.snapshot(model)
    try:
        if kind == "copy":
            cp = model.copy()
        elif kind == "deepcopy":
            cp = copy.deepcopy(model)
        else:
            cp = pickle.loads(pickle.dumps(model))
    except Exception as e:
        acc.ev()
        acc.violation(f"C12/{kind}/raised/{type(e).__name__}", f"{kind} raised {type(e).__name__}: {str(e)[:200]}", ident)
        return
    acc.count("copies")
    if open_ctx:
        acc.count("copies_with_open_context")
    # (1) equivalence
    acc.ev()
    s_copy = observe.snapshot(cp)
    d = observe.snapshot_diff(s_orig, s_copy, lp_rel=1e-12)
    if d:
        acc.violation(f"C12/{kind}/not-equivalent/" + _dclass(d[0]), f"the {kind} differs from its original: {d[0]}", dict(ident, diffs=d[:8]))
        return
    d = observe.snapshot_diff(s_orig, observe.snapshot(model), lp_rel=0.0)
    if d:
        acc.violation(f"C12/{kind}/copying-changed-the-original/" + _dclass(d[0]), f"copying changed the original: {d[0]}", dict(ident, diffs=d[:8]))
        return
    if cp.tolerance != model.tolerance:
        acc.violation(f"C12/{kind}/tolerance", f"tolerance {cp.tolerance} vs {model.tolerance}", ident)
        return
    # "... the same tolerance": what the solver of the copy works with, not only the attribute
    acc.count("solver_tolerance_comparisons")
    ta = {k: v for k, v in s_orig["lp"]["config"].items() if k.startswith("tol_")}
    tb = {k: v for k, v in s_copy["lp"]["config"].items() if k.startswith("tol_")}
    if ta != tb:
        bad = sorted(k for k in set(ta) | set(tb) if ta.get(k) != tb.get(k))
        acc.violation(f"C12/{kind}/solver-tolerance/{'+'.join(b[4:] for b in bad)}", f"the solver of the {kind} works with other tolerances than the original's: {ta} -> {tb}", dict(ident, original=ta, copy=tb))
        return
    # (2) identity
    acc.ev()
    acc.count("identity_checks")
    ip = identity_problems(model, cp)
    if ip:
        classes = sorted({share_class(p) for p in ip})
        for c in classes[:4]:
            ex = [p for p in ip if share_class(p) == c]
            acc.violation(f"C12/{kind}/shared/{c}", f"after {kind}: {ex[0]} ({len(ex)} of this kind)", dict(ident, shared=ex[:6]))
    # leave the contexts of the original (must not touch the copy)
    s_copy = observe.snapshot(cp)
    while model._contexts:
        model.__exit__(None, None, None)
    acc.ev()
    d = observe.snapshot_diff(s_copy, observe.snapshot(cp), lp_rel=0.0)
    if d:
        acc.violation(f"C12/{kind}/context-exit-on-original-changes-copy/" + _dclass(d[0]), f"leaving the original's context changed the copy: {d[0]}", dict(ident, diffs=d[:6]))
        return
    # (3) taint test, both directions
    allowed = [n for n in ops.names() if n not in ("model.copy", "model.solver=", "flux_analysis.add_room", "flux_analysis.add_loopless", "model.merge")] + ["inplace.mutation"]
    for edited_name, edited, other in (("copy", cp, model), ("original", model, cp)):
        H = ops.Hist(edited, rng)
        H.counter = 100 if edited_name == "copy" else 200  # fresh names (uc_1 ... exist already)
        before_other = observe.snapshot(other)
        state = {"ok": True, "changed": False}
        first = observe.snapshot(edited, with_lp=False)

        def monitor(H, k, name, desc, exc, trace):
            acc.ev()
            acc.count("taint_steps_checked")
            if name == "inplace.mutation":
                acc.count("inplace_mutations")
            try:
                now = observe.snapshot(other)
                d = observe.snapshot_diff(before_other, now, lp_rel=0.0, ignore=())
            except Exception as e:
                d = [f"other side unreadable: {type(e).__name__}: {e}"]
            if d:
                state["ok"] = False
                mech = name if name != "inplace.mutation" else "inplace:" + str((desc or {}).get("kind"))
                acc.violation(
                    f"C12/{kind}/edit-on-{edited_name}-changes-the-other/{mech}/" + _dclass(d[0]),
                    f"{name} on the {edited_name} changed the {'original' if edited_name == 'copy' else 'copy'}: {d[0]}",
                    dict(ident, edited=edited_name, trace=trace[-6:], diffs=d[:6]),
                )
                return False
            return True

        trace = hist.run_history(H, 10, allowed, monitor, ctx_prob=0.0, journal=lambda j: acc.journal(dict(j, **ident)))
        if not state["ok"]:
            return
        if H.model is edited and observe.snapshot_diff(first, observe.snapshot(edited, with_lp=False)):
            acc.nontrivial(h(rec), kind, edited_name, h([t["op"] for t in trace]))
    # (4) object level
    object_level(acc, rng, model, ident)
    if case < 2:
        acc.sample({"copy_kind": kind, "open_contexts": open_ctx, "reactions": len(model.reactions), "groups": [g.id for g in model.groups]})


def _dclass(d):
    from cv.props.c03 import _diff_class

    return _diff_class(d)


def object_level(acc, rng, model, ident):
    if not len(model.reactions) or not len(model.metabolites):
        return
    snap = observe.snapshot(model)
    no_rule = [x for x in model.reactions if not x.gene_reaction_rule]
    with_rule = [x for x in model.reactions if x.gene_reaction_rule]
    for rep in range(3):
        r = rng.choice(list(model.reactions))
        r2 = rng.choice(list(model.reactions))
        if rep == 1 and no_rule and with_rule:
            r, r2 = rng.choice(no_rule), rng.choice(with_rule)  # the sum takes the right operand's rule
        elif rep == 2 and no_rule and with_rule:
            r, r2 = rng.choice(with_rule), rng.choice(no_rule)
        met = rng.choice(list(model.metabolites))
        # (the property names Reaction.copy, Metabolite.copy and + - *; copy.copy /
        # deepcopy / pickle of a single reaction are not claimed)
        for what in ("Reaction.copy", "Metabolite.copy", "+", "-", "*", "sum([r])", "r+0", "0+r"):
            acc.ev()
            acc.count("object_level_copies")
            try:
                if what == "Reaction.copy":
                    res = r.copy()
                elif what == "copy.copy(reaction)":
                    res = copy.copy(r)
                elif what == "deepcopy(reaction)":
                    res = copy.deepcopy(r)
                elif what == "pickle(reaction)":
                    res = pickle.loads(pickle.dumps(r))
                elif what == "Metabolite.copy":
                    res = met.copy()
                elif what == "sum([r])":
                    res = sum([r])
                elif what == "r+0":
                    res = r + 0
                elif what == "0+r":
                    res = 0 + r
                elif what == "+":
                    res = r + r2
                elif what == "-":
                    res = r - r2
                else:
                    res = r * rng.choice([2, -1, 0.5])
            except Exception as e:
                acc.violation(f"C12/{what}/raised/{type(e).__name__}", f"{what} raised {type(e).__name__}: {str(e)[:150]}", dict(ident, reaction=r.id))
                continue
            d = observe.snapshot_diff(snap, observe.snapshot(model), lp_rel=0.0)
            if d:
                acc.violation(f"C12/{what}/operand-changed/" + _dclass(d[0]), f"{what} changed its operand / the model: {d[0]}", dict(ident, reaction=r.id, other=r2.id, diffs=d[:5]))
                return
            if what == "copy.copy(reaction)":
                continue  # a shallow copy is documented by the copy module to share
            if res is r or res is r2:
                acc.violation(f"C12/{what}/result-is-the-operand-itself", f"{what} returned its operand, not a new reaction", dict(ident, reaction=r.id))
                continue
            if getattr(res, "model", None) is not None:
                acc.violation(f"C12/{what}/result-attached-to-model", f"the result of {what} still belongs to a model", dict(ident, reaction=r.id))
                continue
            if what != "Metabolite.copy":
                mine = {id(m) for m in model.metabolites} | {id(g) for g in model.genes}
                shared = [x.id for x in list(res.metabolites) + list(res.genes) if id(x) in mine]
                if shared:
                    acc.violation(f"C12/{what}/result-shares-objects", f"the result of {what} shares {shared[:3]} with the model", dict(ident, reaction=r.id, shared=shared[:5]))
                    continue
                own = {id(x.gpr): x.id for x in model.reactions}
                own.update({id(x.gpr.body): x.id for x in model.reactions if getattr(x.gpr, "body", None) is not None})
                if id(res.gpr) in own or (getattr(res.gpr, "body", None) is not None and id(res.gpr.body) in own):
                    acc.violation(f"C12/{what}/result-shares-objects/gene-rule", f"the result of {what} shares its rule object with reaction {own.get(id(res.gpr)) or own.get(id(res.gpr.body))} of the model", dict(ident, reaction=r.id, other=r2.id))
                    continue
                # taint: editing the result must not reach the model
                try:
                    if res.genes:
                        # an in-place rule edit on the result's side (rename_genes rewrites
                        # the rule objects of the model the result has been put into)
                        import cobra
                        from cobra.manipulation import rename_genes

                        tmp = cobra.Model("tmp")
                        tmp.add_reactions([res])
                        rename_genes(tmp, {g.id: g.id + "_r" for g in list(tmp.genes)})
                        acc.count("rule_edits_on_results")
                except Exception:
                    pass
                try:
                    res.notes["t"] = 1
                    res.annotation["t"] = 1
                    for m_ in list(res.metabolites)[:1]:
                        m_.name = "tainted"
                        m_.annotation["t"] = 1
                    res.bounds = (-7, 7)
                except Exception:
                    pass
                d = observe.snapshot_diff(snap, observe.snapshot(model), lp_rel=0.0)
                if d:
                    acc.violation(f"C12/{what}/editing-result-changes-model/" + _dclass(d[0]), f"editing the result of {what} changed the model: {d[0]}", dict(ident, reaction=r.id, diffs=d[:5]))
                    return


def run_shard(desc, acc):
    first = desc.get("first", 0)
    for case in range(first, first + desc["cases"]):
        run_case(desc["base"], case, acc)
        acc.checkpoint()


def replay(w, acc):
    run_case(w["base"], w["case"], acc)
