"""C18 - medium get/set are inverse; a minimal medium is sufficient and minimal.

Oracle (medium): the expected bounds of every reaction after `model.medium = d` are
computed from the documented rule and compared for *all* reactions; the getter must
return exactly the entries with positive import.  Oracle (minimal_medium): exact LP for
the minimal total import, exhaustive subset enumeration for the minimal number of
components, sufficiency by applying the returned imports as the medium on a copy and
solving exactly.
"""
import itertools
import math
import warnings

from cv import gen, oracles
from cv.acc import h
from cv.exactlp import fr

PROPERTY = "C18"
LEVEL = "exploration"
RULE = (
    "case = one medium assignment + read-back, or one minimal_medium call (default / "
    "minimize_components True or k / exports / open_exchanges False, True or 50; achievable and "
    "unachievable targets) on a generated model with 2-7 exchanges written as export (x_e <=>), "
    "import (<=> x_e) or with non-unit coefficients.  Non-trivial when the medium is a proper "
    "subset of the exchanges / the target needs >= 1 import; distinct by (model hash, arguments)."
    " A third of the small models gets alternative nutrient routes of different sizes; minimize_components is also asked for 5 and 8 alternatives."  # third-session additions
)
ASSUMPTIONS = [
    "exchanges = boundary reactions on the external compartment 'e' (the documented regime of the heuristic)",
    "max-direction objectives for minimal_medium (the objective requirement is 'objective >= min_objective_value')",
    "totals compared with 1e-6 relative; the composition of a minimal medium is not unique, only total / cardinality are judged",
]
REACH = [
    "core/model.py:Model.medium",
    "medium/minimal_medium.py:minimal_medium",
    "medium/minimal_medium.py:add_linear_obj",
    "medium/minimal_medium.py:add_mip_obj",
    "medium/minimal_medium.py:_as_medium",
    "medium/boundary_types.py:find_boundary_types",
]
TOL = 1e-6


def minimums(tier):
    return {
        "evaluations": 800,
        "distinct_nontrivial": 200,
        "counters": {"medium_assignments": 400, "minimal_medium_calls": 250, "minimal_medium_none_expected": 25, "component_minimal_calls": 60, "import_written_exchanges_seen": 100},
    }


def plan(tier, seed):
    n = 16 if tier == "quick" else 64
    per = 30 if tier == "quick" else 220
    return [{"cases": per, "base": seed * 1000003 + k} for k in range(n)]


def is_export_written(r):
    return all(v < 0 for v in r.metabolites.values())


def import_bound(r):
    return -r.lower_bound if is_export_written(r) else r.upper_bound


def exchanges_of(model):
    return [r for r in model.reactions if r.boundary and all(m.compartment == "e" for m in r.metabolites)]


def run_case(base, case, acc):
    from cobra.medium import minimal_medium

    rng = gen.rng_for("C18", base, case)
    rec = gen.network(rng, genes=0, finite=True, size=rng.randint(1, 3), allow_forced=rng.random() < 0.2)
    rec["direction"] = "max"
    # exchanges with one-sided / forced export bounds as well
    for r in rec["rxns"]:
        if r["id"].startswith("EX_") and rng.random() < 0.25:
            exportw = all(v < 0 for v in r["stoich"].values())
            choice = rng.choice(["forced-export", "export-only", "import-only"])
            if choice == "forced-export":
                r["lb"], r["ub"] = (1, 10) if exportw else (-10, -1)
            elif choice == "export-only":
                r["lb"], r["ub"] = (0, 10) if exportw else (-10, 0)
            else:
                r["lb"], r["ub"] = (-10, 0) if exportw else (0, 10)
    n_ex = sum(1 for r in rec["rxns"] if r["id"].startswith("EX_"))
    internal = [m["id"] for m in rec["mets"] if m["compartment"] == "c"]
    if internal and n_ex <= 4 and rng.random() < 0.35:
        # alternative nutrient routes of different sizes into one metabolite: one nutrient alone, or two others
        # together - media with more components than the minimum exist next to the minimal ones
        target_met = rng.choice(internal)
        for mid in ("alt_a_e", "alt_b_e", "alt_c_e"):
            rec["mets"].append({"id": mid, "compartment": "e", "name": mid, "formula": "", "charge": None})
            cap = rng.choice([5, 10, 20])
            rec["rxns"].append({"id": "EX_" + mid, "stoich": {mid: -1}, "lb": -cap, "ub": 1000, "gpr": None, "obj": 0, "name": "exchange " + mid, "subsystem": ""})
        rec["rxns"].append({"id": "ALT1", "stoich": {"alt_a_e": -1, target_met: 1}, "lb": 0, "ub": 1000, "gpr": None, "obj": 0, "name": "route 1", "subsystem": ""})
        rec["rxns"].append({"id": "ALT2", "stoich": {"alt_b_e": -1, "alt_c_e": -1, target_met: rng.choice([1, 2])}, "lb": 0, "ub": 1000, "gpr": None, "obj": 0, "name": "route 2", "subsystem": ""})
        acc.count("models_with_alternative_nutrient_routes_of_different_sizes")
    with warnings.catch_warnings():
        warnings.simplefilter("ignore")
        model = gen.build(rec)
    exs = exchanges_of(model)
    got_ex = sorted(r.id for r in model.exchanges)
    ident0 = {"base": base, "case": case}
    wrec = lambda: rec if len(str(rec)) < 6000 else None
    acc.ev()
    if got_ex != sorted(r.id for r in exs):
        acc.violation("C18/exchanges/heuristic-disagrees", f"model.exchanges = {got_ex}, boundary reactions on compartment e: {sorted(r.id for r in exs)}", dict(ident0, start_recipe=wrec()))
        return
    if not exs:
        acc.count("models_without_exchanges")
        return
    acc.count("import_written_exchanges_seen", sum(1 for r in exs if not is_export_written(r)))
    sig = gen.recipe_sig(rec)

    # ----------------------------------------------------------- medium set / get
    for call in range(2):
        before = {r.id: tuple(r.bounds) for r in model.reactions}
        chosen = rng.sample(exs, rng.randint(0, len(exs)))
        d = {r.id: rng.choice([0, 0.5, 1, 5, 10, 1000, 2.5]) for r in chosen}
        ident = dict(ident0, medium=d)
        expected = dict(before)
        will_raise = False
        for r in exs:
            lb, ub = before[r.id]
            if r.id in d:
                v = d[r.id]
                if is_export_written(r):
                    if -v > ub:
                        will_raise = True
                    expected[r.id] = (-v, ub)
                else:
                    if v < lb:
                        will_raise = True
                    expected[r.id] = (lb, v)
            else:
                if is_export_written(r):
                    expected[r.id] = (min(lb, 0) if lb > 0 else 0.0 if lb < 0 else lb, ub) if False else ((lb, ub) if lb >= 0 else (0.0, ub))
                else:
                    expected[r.id] = (lb, ub) if ub <= 0 else (lb, 0.0)
                e = expected[r.id]
                if e[0] > e[1]:
                    will_raise = True
        try:
            with warnings.catch_warnings():
                warnings.simplefilter("ignore")
                with model:
                    model.medium = d
                    after = {r.id: tuple(r.bounds) for r in model.reactions}
                    back = dict(model.medium)
        except ValueError as e:
            acc.ev()
            if not will_raise:
                acc.violation("C18/medium-setter/raised-unexpectedly", f"model.medium = {d} raised {e}", dict(ident, start_recipe=wrec()))
            else:
                acc.count("medium_assignments_raising_as_documented")
            continue
        acc.ev()
        acc.count("medium_assignments")
        if will_raise:
            acc.count("expected_raise_but_none")
            continue
        bad = [(rid, after[rid], expected[rid]) for rid in after if tuple(map(float, after[rid])) != tuple(map(float, expected[rid]))]
        if bad:
            rid, a, e = bad[0]
            r = model.reactions.get_by_id(rid)
            if r not in exs:
                kind = "non-exchange-bound-changed"
            elif rid in d:
                kind = "listed-exchange-wrong-bounds"
            else:
                kind = "unlisted-exchange-wrong-bounds"
            acc.violation(
                f"C18/medium-setter/{kind}/" + ("export-written" if is_export_written(r) else "import-written"),
                f"after model.medium = {d}: {rid} has bounds {a}, expected {e} (before {before[rid]})",
                dict(ident, reaction=rid, got=list(a), expected=list(e), before=list(before[rid]), start_recipe=wrec()),
            )
            continue
        want_back = {}
        for r in exs:
            e = expected[r.id]
            ib = -e[0] if is_export_written(r) else e[1]
            if ib > 0:
                want_back[r.id] = ib
        if {k: float(v) for k, v in back.items()} != {k: float(v) for k, v in want_back.items()}:
            acc.violation("C18/medium-getter/wrong-entries", f"model.medium reads {back}, entries with positive import are {want_back}", dict(ident, got=back, expected=want_back, start_recipe=wrec()))
            continue
        if 0 < len([k for k, v in d.items() if v > 0]) < len(exs):
            acc.nontrivial(sig, "medium", h(d))

    # ----------------------------------------------------------- minimal medium
    P = oracles.Problem(model)
    z = P.optimum()
    if z.status != "optimal":
        acc.count("skipped_no_optimum")
        return
    for call in range(2):
        open_ex = rng.choice([False, False, True, 50])
        P2 = oracles.Problem(model)
        lp = P2.copy_lp()
        if open_ex:
            ob = 1000 if open_ex is True else open_ex
            for r in exs:
                j = P2.col[r.id]
                lp.lo[j], lp.hi[j] = fr(-ob), fr(ob)
        zmax = lp.solve(P2.c, "max")
        if zmax.status != "optimal":
            continue
        zz = float(zmax.obj)
        target = rng.choice([0.1, zz * 0.5, zz * 0.9, zz, zz * 1.5 + 1, zz + 0.5]) if zz > 0 else rng.choice([0.1, 1.0])
        mode = rng.choice(["linear", "linear", "components", "components-k", "linear-exports"])
        kw = {"min_objective_value": target, "open_exchanges": open_ex}
        if mode == "components":
            kw["minimize_components"] = True
        elif mode == "components-k":
            kw["minimize_components"] = rng.choice([2, 3, 5, 8])  # also more than there are minimal alternatives
        if mode.endswith("exports"):
            kw["exports"] = True
        ident = dict(ident0, mode=mode, kw={k: v for k, v in kw.items()}, max_objective=zz)
        acc.journal(dict(ident, about_to_run="minimal_medium"))
        if len(exs) > 7 and mode.startswith("components"):
            continue
        # exact: imports u_e >= v-part ; min sum u
        lp.add_row(P2.c, fr(float(target)), None, "_target") if P2.c else None
        if not P2.c:
            continue
        us = {}
        for r in exs:
            j = P2.col[r.id]
            u = lp.add_var(0, None)
            if is_export_written(r):
                lp.add_row({u: 1, j: 1}, 0, None)  # u >= -v
            else:
                lp.add_row({u: 1, j: -1}, 0, None)  # u >= v
            us[r.id] = u
        tot = lp.solve({u: 1 for u in us.values()}, "min")
        try:
            with warnings.catch_warnings():
                warnings.simplefilter("ignore")
                res = minimal_medium(model, **kw)
        except Exception as e:
            acc.ev()
            acc.violation(f"C18/minimal_medium/raised/{type(e).__name__}", f"minimal_medium raised {type(e).__name__}: {str(e)[:160]}", dict(ident, start_recipe=wrec()))
            continue
        acc.ev()
        acc.count("minimal_medium_calls")
        w = lambda **k: dict(ident, result=None if res is None else (res.to_dict() if hasattr(res, "to_dict") else str(res)), start_recipe=wrec(), **k)
        margin = abs(float(target) - zz)
        if tot.status != "optimal":
            acc.count("minimal_medium_none_expected")
            if margin < 1e-4 * max(1.0, zz):
                acc.count("borderline_skipped")
                continue
            if res is not None:
                acc.violation("C18/minimal_medium/result-although-no-medium-suffices", f"a medium was returned but the target {target} is unreachable (max {zz})", w())
            continue
        if res is None:
            if margin < 1e-4 * max(1.0, zz):
                acc.count("borderline_skipped")
                continue
            acc.violation("C18/minimal_medium/None-although-a-medium-suffices", f"None returned but the target {target} is reachable (max {zz}, minimal total import {float(tot.obj)})", w(exact_total=float(tot.obj)))
            continue
        media = [res] if not hasattr(res, "columns") else [res[c] for c in res.columns]
        if mode == "components-k":
            acc.count("alternative_media_returned", len(media))
            if len(media) < kw["minimize_components"]:
                acc.count("calls_with_fewer_minimal_alternatives_than_requested")
        if mode.startswith("components"):
            acc.count("component_minimal_calls")
            kmin = min_components(lp, us, exs)
            # the target may coincide with the best value of some subset of exchanges
            # (e.g. 0.9 x optimum in floats vs. the rational value): decide with margin
            k_lo = min_components(_with_target(lp, float(target) * (1 - 1e-7) - 1e-9), us, exs)
            k_hi = min_components(_with_target(lp, float(target) * (1 + 1e-7) + 1e-9), us, exs)
            if not (k_lo == kmin == k_hi):
                acc.count("borderline_skipped")
                continue
        ok = True
        seen_sets = []
        for med in media:
            imports = {k: float(v) for k, v in med.items() if v > 0}
            negs = {k: float(v) for k, v in med.items() if v < 0}
            if negs and not kw.get("exports"):
                acc.violation("C18/minimal_medium/negative-entries-without-exports", f"negative entries {negs}", w())
                ok = False
                break
            unknown = [k for k in med.index if k not in {r.id for r in exs}]
            if unknown:
                acc.violation("C18/minimal_medium/non-exchange-in-medium", f"entries {unknown} are no exchanges", w())
                ok = False
                break
            # sufficiency: apply as medium on a copy, exact optimum
            m2 = model.copy()
            if open_ex:
                ob = 1000 if open_ex is True else open_ex
                for r in exchanges_of(m2):
                    r.bounds = (-ob, ob)
            try:
                m2.medium = {k: v * (1 + 1e-9) + 1e-9 for k, v in imports.items()}
            except Exception as e:
                acc.violation(f"C18/minimal_medium/result-not-assignable/{type(e).__name__}", f"applying the returned medium raised {e}", w())
                ok = False
                break
            reach = oracles.Problem(m2).optimum()
            if reach.status != "optimal" or float(reach.obj) < float(target) - 1e-5 * max(1.0, abs(float(target))):
                acc.violation(
                    "C18/minimal_medium/not-sufficient",
                    f"with the returned imports as medium the objective reaches {None if reach.status != 'optimal' else float(reach.obj)}, requested {target}",
                    w(reached=None if reach.status != "optimal" else float(reach.obj)),
                )
                ok = False
                break
            if mode.startswith("linear"):
                t = sum(imports.values())
                if abs(t - float(tot.obj)) > 1e-5 * max(1.0, float(tot.obj)):
                    acc.violation("C18/minimal_medium/total-import-not-minimal", f"total import {t}, exact minimum {float(tot.obj)}", w(exact_total=float(tot.obj)))
                    ok = False
                    break
            else:
                if kmin is not None and len(imports) != kmin:
                    acc.violation("C18/minimal_medium/components-not-minimal", f"{len(imports)} components, the minimum is {kmin}", w(exact_min_components=kmin))
                    ok = False
                    break
                s = frozenset(imports)
                if s in seen_sets and len(s) > 0:
                    acc.violation("C18/minimal_medium/alternative-media-not-different", f"two alternative media have the same components {sorted(s)}", w())
                    ok = False
                    break
                seen_sets.append(s)
        if ok and float(tot.obj) > 0:
            acc.nontrivial(sig, mode, str(open_ex), round(float(target), 6))
    if case < 2:
        acc.sample({"exchanges": {r.id: [dict((m.id, v) for m, v in r.metabolites.items()), list(r.bounds)] for r in exs}, "max_objective": float(z.obj)})


def _with_target(lp, value):
    lp2 = lp.copy()
    i = lp2.rownames.index("_target")
    # the row is  c.v - slack = 0  with slack in [target, inf): move the slack's bound
    for j, nm in enumerate(lp2.names):
        if nm == "_slack__target":
            lp2.lo[j] = fr(value)
    return lp2


def min_components(lp, us, exs):
    """Smallest number of exchanges with import > 0 that still allow the target."""
    ids = [r.id for r in exs]
    for k in range(0, len(ids) + 1):
        for allowed in itertools.combinations(ids, k):
            eb = {us[i]: (None, fr(0)) for i in ids if i not in allowed}
            if oracles.feasible_with(lp, eb):
                return k
    return None


def run_shard(desc, acc):
    first = desc.get("first", 0)
    for case in range(first, first + desc["cases"]):
        run_case(desc["base"], case, acc)
        acc.checkpoint()


def replay(w, acc):
    run_case(w["base"], w["case"], acc)
