"""C13 - analyses leave the model exactly as they found it.

Monitor shape: whole-state comparison around every call (content, bounds, objective and
direction, gene states, raw GLPK problem without left-over rows/columns, solver
configuration), whether the call returns, reports infeasibility or raises; the call is
made twice and the uniquely defined quantities of the two results are compared.  An
OptimizeTap asserts the *core* FBA invariant (C01) at every solve the analyses make.
"""
import math
import warnings

from cv import gen, hist, observe, ops, oracles
from cv.acc import h

observe.COMPARE_OBJECTIVE_NAME = True
PROPERTY = "C13"
LEVEL = "fault_enumeration"
RULE = (
    "case = one analysis call (made twice) out of 34 analyses/argument forms (optimize, "
    "slim_optimize, FVA plain/loopless/pfba/fraction, find_blocked, find_essential_*, pfba, moma, "
    "room, geometric_fba, loopless_solution, single/double deletions with fba / linear moma / "
    "linear room, production_envelope, assess*, minimal_medium LP/MIP, gapfill, fastcc, sample "
    "achr/optgp, model/metabolite/reaction summaries) on a generated model that is feasible, "
    "infeasible, unbounded, degenerate (zero optimum), empty or without objective, serial or with "
    "2 processes, outside or inside a user context after a few edits (then the context is left "
    "and the entry state must come back).  Non-trivial when the analysis solved >= 1 LP or raised; "
    "distinct by (analysis, model class, arguments hash, in/out context)."
    " Every serial call is repeated with a failpoint on the solver: the k-th solve raises a solver error or comes back infeasible / undefined (quick: one kind per call, thorough: all three); flux arguments carrying NaN; MOMA / ROOM with one explicit reference per model state."  # third-session additions
)
ASSUMPTIONS = [
    "non-unique outputs (flux vectors, sample values, fastcc's choice among alternative optima) are not compared between the two calls",
    "documented model-modifying helpers (add_loopless, add_pfba, add_moma, add_room) are not in the list",
]
REACH = [
    "flux_analysis/variability.py:flux_variability_analysis",
    "flux_analysis/variability.py:find_blocked_reactions",
    "flux_analysis/parsimonious.py:pfba",
    "flux_analysis/moma.py:moma",
    "flux_analysis/room.py:room",
    "flux_analysis/geometric.py:geometric_fba",
    "flux_analysis/loopless.py:loopless_solution",
    "flux_analysis/deletion.py:_multi_deletion",
    "flux_analysis/phenotype_phase_plane.py:production_envelope",
    "flux_analysis/reaction.py:assess",
    "flux_analysis/gapfilling.py:gapfill",
    "flux_analysis/fastcc.py:fastcc",
    "medium/minimal_medium.py:minimal_medium",
    "sampling/sampling.py:sample",
    "summary/model_summary.py:ModelSummary._generate",
]
CRASH_IS_VIOLATION = True
BIG_M = {"room(linear)", "room", "minimal_medium(components)", "single_gene_deletion(linear room)", "gapfill"}
_TAP = {"model": None, "acc": None, "ctx": None, "armed": False, "problems": []}


def minimums(tier):
    return {
        "evaluations": 1500,
        "distinct_nontrivial": 400,
        "counters": {"analysis_calls": 1500, "calls_that_raised": 150, "calls_inside_user_context": 200, "optimize_tap_checks": 5000, "second_call_comparisons": 400, "multiprocess_calls": 40},
        "sets": {"analyses": 30, "model_classes": 5},
    }


def plan(tier, seed):
    n = 16 if tier == "quick" else 64
    per = 14 if tier == "quick" else 100
    return [{"cases": per, "base": seed * 1000003 + k} for k in range(n)]


# ---------------------------------------------------------------------------
# OptimizeTap
# ---------------------------------------------------------------------------
class InjectedSolverFailure(RuntimeError):
    pass


_TIER = ["thorough"]
_FAULT = {"armed": False, "at": 0, "seen": 0, "kind": "raise", "fired": False}


def install_tap():
    import optlang.interface as oi

    if getattr(oi.Model, "_cv_tapped", False):
        return
    orig = oi.Model.optimize

    def optimize(self, *a, **k):
        if _FAULT["armed"]:
            # failpoint: the k-th solve of the analysis fails (solver error) or comes back without an optimum
            _FAULT["seen"] += 1
            if _FAULT["seen"] == _FAULT["at"]:
                _FAULT["fired"] = True
                if _FAULT["kind"] == "raise":
                    raise InjectedSolverFailure("injected: the solver failed")
                orig(self, *a, **k)
                self._status = _FAULT["kind"]
                return _FAULT["kind"]
        m = _TAP["model"]
        if _TAP["armed"] and m is not None and m.solver is self:
            acc = _TAP["acc"]
            acc.count("optimize_tap_checks")
            try:
                probs = observe.fba_problems(m, core_only=True, check_objective=False)
            except Exception as e:
                probs = [f"core unreadable: {type(e).__name__}: {e}"]
            if probs and len(_TAP["problems"]) < 3:
                _TAP["problems"].append(probs[0])
        return orig(self, *a, **k)

    oi.Model.optimize = optimize
    oi.Model._cv_tapped = True


# ---------------------------------------------------------------------------
# analyses: name -> fn(model, rng, aux) -> comparable result
# ---------------------------------------------------------------------------
def _r(x, nd=6):
    if x is None:
        return None
    try:
        x = float(x)
    except Exception:
        return str(x)
    if math.isnan(x):
        return "nan"
    if math.isinf(x):
        return "inf" if x > 0 else "-inf"
    return round(x, nd) + 0.0


def _frame(df, cols):
    return {str(i): [_r(df.at[i, c]) for c in cols] for i in df.index}


def _del(df):
    return {",".join(sorted(ids)): [_r(g, 5), s] for ids, g, s in zip(df["ids"], df["growth"], df["status"])}


def _sol(sol, nd=6):
    """[status, objective value] - the value only where it is defined (status optimal)"""
    return [sol.status, _r(sol.objective_value, nd) if sol.status == "optimal" else None]


def analyses():
    import cobra
    import cobra.flux_analysis as fa
    from cobra.flux_analysis import reaction as far
    from cobra.medium import minimal_medium
    from cobra.sampling import sample

    A = {}

    def reg(name, fn, procs=False):
        A[name] = (fn, procs)

    reg("optimize", lambda m, rng, x: (lambda s: [s.status, _r(s.objective_value) if s.status == "optimal" else None])(m.optimize()))
    reg("optimize(minimize)", lambda m, rng, x: (lambda s: [s.status, _r(s.objective_value) if s.status == "optimal" else None])(m.optimize("minimize")))
    reg("optimize(raise_error)", lambda m, rng, x: _r(m.optimize(raise_error=True).objective_value))
    reg("optimize(minimize,raise_error)", lambda m, rng, x: _r(m.optimize("minimize", raise_error=True).objective_value))
    reg("optimize(maximize,raise_error)", lambda m, rng, x: _r(m.optimize("maximize", raise_error=True).objective_value))
    reg("slim_optimize", lambda m, rng, x: _r(m.slim_optimize()))
    reg("slim_optimize(None)", lambda m, rng, x: _r(m.slim_optimize(error_value=None)))
    reg("fva", lambda m, rng, x: _frame(fa.flux_variability_analysis(m, processes=x["p"]), ["minimum", "maximum"]), True)
    reg("fva(fraction,subset)", lambda m, rng, x: _frame(fa.flux_variability_analysis(m, reaction_list=x["rxns"], fraction_of_optimum=0.5, processes=x["p"]), ["minimum", "maximum"]), True)
    reg("fva(loopless)", lambda m, rng, x: {"n": len(fa.flux_variability_analysis(m, reaction_list=x["rxns"], loopless=True, processes=1))})
    reg("fva(pfba_factor)", lambda m, rng, x: _frame(fa.flux_variability_analysis(m, reaction_list=x["rxns"], pfba_factor=1.1, processes=1), ["minimum", "maximum"]))
    reg("find_blocked_reactions", lambda m, rng, x: sorted(fa.find_blocked_reactions(m, processes=x["p"])), True)
    reg("find_blocked_reactions(open)", lambda m, rng, x: sorted(fa.find_blocked_reactions(m, open_exchanges=True, processes=1)))
    reg("find_essential_genes", lambda m, rng, x: sorted(g.id for g in fa.find_essential_genes(m, processes=x["p"])), True)
    reg("find_essential_reactions", lambda m, rng, x: sorted(r.id for r in fa.find_essential_reactions(m, processes=x["p"])), True)
    reg("pfba", lambda m, rng, x: _sol(fa.pfba(m)))
    reg("pfba(fraction)", lambda m, rng, x: _sol(fa.pfba(m, fraction_of_optimum=0.5)))
    def _ref(m, x):
        """One reference distribution per (model state, analysis), given explicitly: with the default reference
        (an internal pFBA solution, not unique) the optimal value of MOMA / ROOM is not a uniquely defined quantity."""
        if "_ref" not in x:
            try:
                x["_ref"] = fa.pfba(m)
            except Exception:
                x["_ref"] = None
        return x["_ref"]

    reg("moma(linear)", lambda m, rng, x: _sol(fa.moma(m, solution=_ref(m, x), linear=True), 5))
    reg("room(linear)", lambda m, rng, x: _sol(fa.room(m, solution=_ref(m, x), linear=True), 4))
    reg("room", lambda m, rng, x: _sol(fa.room(m, solution=_ref(m, x), linear=False), 4))
    reg("geometric_fba", lambda m, rng, x: _sol(fa.geometric_fba(m), 4))
    reg("loopless_solution", lambda m, rng, x: _sol(fa.loopless_solution(m), 5))

    def _with_nan(m):
        """A flux distribution as users carry them along: taken earlier, re-indexed after the model got another reaction
        - so one entry is NaN.  The analysis fails part-way (a NaN bound is refused); the model must be what it was."""
        fl = fa.pfba(m).fluxes.copy()
        if len(fl):
            fl.iloc[len(fl) // 2] = float("nan")
        return fl

    reg("loopless_solution(fluxes with NaN)", lambda m, rng, x: _sol(fa.loopless_solution(m, fluxes=_with_nan(m)), 5))
    reg("single_gene_deletion", lambda m, rng, x: _del(fa.single_gene_deletion(m, processes=x["p"])), True)
    reg("single_reaction_deletion", lambda m, rng, x: _del(fa.single_reaction_deletion(m, processes=x["p"])), True)
    reg("double_gene_deletion", lambda m, rng, x: _del(fa.double_gene_deletion(m, processes=x["p"])), True)
    reg("double_reaction_deletion(subset)", lambda m, rng, x: _del(fa.double_reaction_deletion(m, x["rxns"], x["rxns"], processes=x["p"])), True)
    reg("single_reaction_deletion(linear moma)", lambda m, rng, x: {k: v[1] for k, v in _del(fa.single_reaction_deletion(m, x["rxns"], method="linear moma", processes=1)).items()})
    reg("single_gene_deletion(linear room)", lambda m, rng, x: {k: v[1] for k, v in _del(fa.single_gene_deletion(m, method="linear room", processes=1)).items()})
    reg("production_envelope", lambda m, rng, x: (lambda df: {"rows": len(df), "max": [_r(v, 4) for v in df["flux_maximum"]]})(fa.production_envelope(m, x["rxns"][:1], points=4)))
    reg("production_envelope(objective)", lambda m, rng, x: (lambda df: {"rows": len(df), "max": [_r(v, 4) for v in df["flux_maximum"]]})(fa.production_envelope(m, x["rxns"][:1], objective=x["rxn"], points=4)))
    reg("production_envelope(objective,carbon_sources)", lambda m, rng, x: (lambda df: {"rows": len(df)})(fa.production_envelope(m, x["rxns"][:1], objective=x["rxn_obj"], carbon_sources=x["rxns"][-1], points=3)))
    reg("assess", lambda m, rng, x: (lambda r: True if r is True else sorted(r))(far.assess(m, x["rxn"])))
    reg("assess_precursors", lambda m, rng, x: (lambda r: True if r is True else sorted(str(k) for k in r))(far.assess_precursors(m, x["rxn_obj"])))
    reg("assess_products", lambda m, rng, x: (lambda r: True if r is True else sorted(str(k) for k in r))(far.assess_products(m, x["rxn_obj"])))
    reg("minimal_medium", lambda m, rng, x: (lambda s: None if s is None else _r(s.sum(), 5))(minimal_medium(m, x["target"])))
    reg("minimal_medium(components)", lambda m, rng, x: (lambda s: None if s is None else int((s > 0).sum()))(minimal_medium(m, x["target"], minimize_components=True)))
    reg("gapfill", lambda m, rng, x: sorted(sorted(r.id for r in sol) for sol in fa.gapfill(m, x["universal"], demand_reactions=False)))
    reg("fastcc", lambda m, rng, x: {"n": len(fa.fastcc(m).reactions) >= 0})
    reg("sample(achr)", lambda m, rng, x: {"rows": len(sample(m, 5, method="achr", thinning=2, seed=3))})
    reg("sample(optgp)", lambda m, rng, x: {"rows": len(sample(m, 4, method="optgp", thinning=2, processes=x["p"], seed=3))}, True)
    reg("model.summary", lambda m, rng, x: {"ok": bool(m.summary().to_string())})
    reg("model.summary(fva)", lambda m, rng, x: {"ok": bool(m.summary(fva=0.9).to_string())})
    reg("metabolite.summary", lambda m, rng, x: {"ok": bool(x["met"].summary().to_string())})
    reg("reaction.summary", lambda m, rng, x: {"ok": bool(x["rxn_obj"].summary(fva=0.9).to_html())})
    return A


def make_model(rng):
    """(model, class label, recipe)"""
    import cobra
    from cv.props.c04 import make_variant

    cls = rng.choice(["feasible"] * 5 + ["infeasible", "infeasible", "unbounded", "degenerate", "empty", "no-objective"])
    if cls == "empty":
        return cobra.Model("empty"), cls, None
    rec = gen.network(rng, genes=rng.choice([0, 2, 3]), size=rng.randint(1, 2), finite=cls != "unbounded", allow_forced=rng.random() < 0.3)
    if cls in ("infeasible", "unbounded"):
        rec = make_variant(rng, rec, cls)
    if cls == "no-objective":
        for r in rec["rxns"]:
            r["obj"] = 0
    lab, _res = gen.classify(rec)
    real = lab["status"]
    if real == "optimal":
        real = "no-objective" if cls == "no-objective" else ("degenerate" if not lab.get("opt_nonzero") else "feasible")
    with warnings.catch_warnings():
        warnings.simplefilter("ignore")
        model = gen.build(rec)
    return model, real, rec


def run_case(base, case, acc, A):
    import cobra

    install_tap()
    rng = gen.rng_for("C13", base, case)
    model, cls, rec = make_model(rng)
    acc.add("model_classes", cls)
    rids = [r.id for r in model.reactions]
    aux = {"p": 1}
    if rids:
        aux["rxns"] = rng.sample(rids, min(3, len(rids)))
        aux["rxn"] = rng.choice(rids)
        aux["rxn_obj"] = model.reactions.get_by_id(aux["rxn"])
        aux["met"] = rng.choice(list(model.metabolites)) if len(model.metabolites) else None
    if cls == "feasible" and rng.random() < 0.25:
        # a user's own, permanent objective requirement: analyses that fix the objective
        # internally (pfba, geometric_fba, fva with pfba_factor, summaries) reuse that
        # constraint name and must hand the user's constraint back
        from cobra.util import fix_objective_as_constraint

        try:
            fix_objective_as_constraint(model, fraction=rng.choice([0.25, 0.5]))
            acc.count("models_with_permanent_fixed_objective_constraint")
        except Exception:
            pass
    names = sorted(A)
    if not rids:
        names = [n for n in names if n in ("optimize", "slim_optimize", "slim_optimize(None)", "fva", "find_blocked_reactions", "pfba", "model.summary", "single_reaction_deletion", "fastcc", "find_essential_reactions", "sample(achr)", "minimal_medium")]
    P = None
    try:
        z = oracles.Problem(model).optimum() if rids else None
        aux["target"] = 0.5 * float(z.obj) if z is not None and z.status == "optimal" and z.obj > 0 else 0.1
    except Exception:
        aux["target"] = 0.1
    # gapfill scenario: remove one used reaction into a universal model
    aux["universal"] = cobra.Model("universal")
    chosen = rng.sample(names, min(5, len(names)))
    infinite = any(math.isinf(b) for r in model.reactions for b in r.bounds)
    for name in chosen:
        fn, takes_procs = A[name]
        if infinite and name in BIG_M:
            # these build big-M coefficients from the flux bounds; an infinite bound gives an
            # infinite coefficient and GLPK aborts the process while scaling (garbage in)
            acc.count("big_M_analysis_on_infinite_bounds_skipped")
            continue
        if name == "gapfill":
            if cls != "feasible" or len(rids) < 4:
                continue
            m_use = model.copy()
            uni = cobra.Model("universal")
            cand = [r for r in m_use.reactions if not r.boundary and not r.objective_coefficient]
            if not cand:
                continue
            victim = rng.choice(cand)
            vc = victim.copy()
            if rng.random() < 0.5:
                # the universal reaction's rule names a gene the model has never seen
                vc.gene_reaction_rule = (vc.gene_reaction_rule + " or " if vc.gene_reaction_rule and rng.random() < 0.5 else "") + "g_only_in_universal"
                acc.count("gapfill_universal_reactions_with_an_unknown_gene")
            uni.add_reactions([vc])
            m_use.remove_reactions([victim])
            a2 = dict(aux, universal=uni, rxn_obj=None, met=None)
        else:
            m_use, a2 = model, aux
        procs = rng.choice([1, 1, 2]) if takes_procs else 1
        a2 = dict(a2, p=procs)
        in_ctx = rng.random() < 0.3
        acc.add("analyses", name)
        ident = {"base": base, "case": case, "analysis": name, "model_class": cls, "processes": procs, "in_user_context": in_ctx}
        acc.journal(dict(ident, about_to_run=name))
        wrec = rec if rec is not None and len(str(rec)) < 5000 else None
        entry = None
        H = ops.Hist(m_use, rng)
        if in_ctx:
            entry = observe.snapshot(m_use)
            m_use.__enter__()
            tr = hist.run_history(H, rng.randint(1, 3), ["reaction.bounds=", "reaction.knock_out", "model.objective_direction=", "reaction.objective_coefficient=", "gene.knock_out", "model.add_boundary", "reaction.add_metabolites"], lambda *a: True)
            ident["edits_in_user_context"] = [[t.get("op"), t.get("args"), t.get("raised")] for t in (tr or [])]
            acc.count("calls_inside_user_context")
            if a2.get("rxn_obj") is not None and a2["rxn_obj"].model is not m_use:
                in_ctx_skip = True
        if name in BIG_M and any(math.isinf(b) for r in m_use.reactions for b in r.bounds):
            acc.count("big_M_analysis_on_infinite_bounds_skipped")
            if in_ctx:
                m_use.__exit__(None, None, None)
            continue
        before = observe.snapshot(m_use)
        _TAP.update(model=m_use, acc=acc, armed=True, problems=[])
        results, raised = [], []
        solved0 = acc.counters.get("optimize_tap_checks", 0)
        if procs > 1:
            acc.count("multiprocess_calls")
        ok = True
        for rep in range(2):
            acc.ev()
            acc.count("analysis_calls")
            try:
                with warnings.catch_warnings():
                    warnings.simplefilter("ignore")
                    res = fn(m_use, rng, a2)
                results.append(res)
                raised.append(None)
            except Exception as e:
                results.append(None)
                raised.append(f"{type(e).__name__}: {str(e)[:120]}")
                acc.count("calls_that_raised")
            try:
                after = observe.snapshot(m_use)
                d = observe.snapshot_diff(before, after, lp_rel=0.0, config=True)
            except Exception as e:
                d = [f"state unreadable after the call: {type(e).__name__}: {str(e)[:160]}"]
            if d:
                from cv.props.c03 import _diff_class

                outcome = "raised" if raised[-1] else "returned"
                acc.violation(
                    f"C13/{name}/model-modified/{_diff_class(d[0])}/{outcome}",
                    f"{name} ({outcome}{': ' + raised[-1] if raised[-1] else ''}) left the model modified: {d[0]}",
                    dict(ident, diffs=d[:8], raised=raised[-1], start_recipe=wrec),
                )
                ok = False
                break
        _TAP["armed"] = False
        if ok and procs == 1:
            ok = inject_solver_faults(acc, fn, name, m_use, a2, before, ident, wrec, base, case)
        if _TAP["problems"]:
            acc.violation(f"C13/{name}/core-fba-problem-broken-during-solve", f"during {name} a solve ran on a problem whose core is not the model's FBA problem: {_TAP['problems'][0]}", dict(ident, problems=_TAP["problems"], start_recipe=wrec))
            ok = False
        if ok:
            acc.count("second_call_comparisons")
            differs = (raised[0] is None) != (raised[1] is None) or (raised[0] is None and not _same(results[0], results[1])) or (raised[0] and raised[0].split(":")[0] != raised[1].split(":")[0])
            if differs and raised[0] is None and raised[1] is None and _only_borderline(name, results[0], results[1], m_use):
                acc.count("second_call_borderline_items_ignored")
                differs = False
            if differs and name == "production_envelope" and any(math.isinf(b) for r in m_use.reactions for b in r.bounds):
                # the envelope maximises and minimises the objective: with infinite bounds
                # one of them may not exist, nothing uniquely defined to compare
                acc.count("second_call_not_comparable_unbounded_envelope")
                differs = False
            if differs and name.startswith("production_envelope") and _envelope_outside_fva_domain(m_use, None if name == "production_envelope" else (a2.get("rxn") if name == "production_envelope(objective)" else a2.get("rxn_obj"))):
                # the envelope takes its grid from flux_variability_analysis(fraction_of_optimum=0), which is defined
                # for "fraction in [0, 1] when the optimum has the sign of the direction" (C05's quantifier, from the
                # docstring).  A minimisation whose optimum is positive - here: a user's permanent objective requirement
                # above zero - makes that internal problem infeasible and the grid whatever the solver held last
                # (thorough tier, seeds 3 and 4): no uniquely defined quantity to compare.  The model-unchanged clause
                # stays judged.
                acc.count("second_call_not_comparable_envelope_outside_the_domain_of_its_internal_fva")
                differs = False
            ws = _warm_start_suboptimum(name, fn, rng, a2, m_use, results[0], results[1]) if differs and raised[0] is None and raised[1] is None and "rxn_obj" not in str(name) else None
            if ws:
                acc.violation(
                    "C13/second-call-differs/solver-declares-a-non-optimal-point-optimal-on-the-warm-basis",
                    f"{name}: first call {ws['first']}, second call {ws['second']}, on a fresh copy (cold basis) {ws['cold']}",
                    dict(ident, **ws, start_recipe=wrec),
                )
                differs = False
                ok = False
            if differs:
                acc.violation(
                    f"C13/{name}/second-call-differs",
                    f"calling {name} twice gave different results: {str(results[0])[:120] if raised[0] is None else raised[0]} vs {str(results[1])[:120] if raised[1] is None else raised[1]}",
                    dict(ident, first=results[0] if raised[0] is None else raised[0], second=results[1] if raised[1] is None else raised[1], start_recipe=wrec),
                )
                ok = False
        if in_ctx:
            try:
                m_use.__exit__(None, None, None)
                d = observe.snapshot_diff(entry, observe.snapshot(m_use), lp_rel=0.0, content_rel=1e-12)
            except Exception as e:
                d = [f"leaving the user context raised {type(e).__name__}: {str(e)[:160]}"]
            if d and ok:
                from cv.props.c03 import _diff_class

                acc.violation(f"C13/{name}/user-context-not-restored/{_diff_class(d[0])}", f"after {name} inside a user context, leaving the context did not restore the model: {d[0]}", dict(ident, diffs=d[:6], start_recipe=wrec))
        solved = acc.counters.get("optimize_tap_checks", 0) - solved0
        if solved or any(raised):
            acc.nontrivial(name, cls, h([a2.get("rxns"), procs]), in_ctx)
    if case < 2:
        acc.sample({"model_class": cls, "analyses": chosen, "n_reactions": len(rids)})


def inject_solver_faults(acc, fn, name, m_use, a2, before, ident, wrec, base, case):
    """'... or raises': the same call again with the k-th solve failing - once by a solver error, once by
    coming back 'infeasible', once 'undefined' - at a seeded position k.  The model must be what it was."""
    frng = gen.rng_for("C13fault", base, case, name)
    # how many solves does the call make?
    _FAULT.update(armed=True, at=-1, seen=0, kind="raise", fired=False)
    try:
        with warnings.catch_warnings():
            warnings.simplefilter("ignore")
            fn(m_use, gen.rng_for("C13fault-count", base, case, name), a2)
    except Exception:
        pass
    n = _FAULT["seen"]
    _FAULT["armed"] = False
    if n == 0:
        acc.count("fault_injection_calls_without_a_solve")
        return True
    kinds = ["raise", "infeasible", "undefined"]
    if _TIER[0] == "quick":  # one kind per call in the quick tier (seeded rotation), all three in the thorough one
        kinds = [frng.choice(kinds)]
    for kind in kinds:
        k = frng.choice(sorted({1, n, frng.randint(1, n)}))
        _FAULT.update(armed=True, at=k, seen=0, kind=kind, fired=False)
        outcome = "returned"
        acc.journal(dict(ident, about_to_run=name, injected=[kind, k, n]))
        try:
            with warnings.catch_warnings():
                warnings.simplefilter("ignore")
                fn(m_use, gen.rng_for("C13fault-count", base, case, name), a2)
        except InjectedSolverFailure:
            outcome = "propagated"
        except Exception as e:
            outcome = "raised " + type(e).__name__
        finally:
            _FAULT["armed"] = False
        if not _FAULT["fired"]:
            acc.count("fault_injection_position_not_reached")
            continue
        acc.ev()
        acc.count("solver_faults_injected")
        acc.add("fault_outcomes", f"{kind}:{outcome.split(' ')[0]}")
        try:
            d = observe.snapshot_diff(before, observe.snapshot(m_use), lp_rel=0.0, config=True)
        except Exception as e:
            d = [f"state unreadable after the call: {type(e).__name__}: {str(e)[:160]}"]
        if d:
            from cv.props.c03 import _diff_class

            acc.violation(
                f"C13/{name}/model-modified-after-a-failing-solve/{_diff_class(d[0])}/{'solver-error' if kind == 'raise' else 'no-optimum'}",
                f"{name} with solve {k} of {n} {'raising a solver error' if kind == 'raise' else 'coming back ' + kind} ({outcome}) left the model modified: {d[0]}",
                dict(ident, diffs=d[:8], injected={"kind": kind, "at": k, "of": n}, outcome=outcome, start_recipe=wrec),
            )
            return False
    return True


def _envelope_outside_fva_domain(m, objective=None):
    """True when the optimum of the objective the envelope works with (the `objective` argument when one is given,
    else the model's own) does not have the sign of the model's direction (>= 0 when maximising, <= 0 when
    minimising) - decided by the solver's own answer on a copy, with a margin.  (Thorough tier, seed 7: model
    without objective, direction min, `objective=` a reaction with lower bound 1: the internal FVA asks for
    objective <= 0 * 1, infeasible, and the grid is whatever the solver held last.)"""
    try:
        c = m.copy()
        if objective is not None:
            c.objective = c.reactions.get_by_id(objective if isinstance(objective, str) else objective.id)
            c.objective_direction = m.objective_direction
        v = c.slim_optimize()
        if v != v:
            return True  # no optimum at all
        return (m.objective_direction == "max" and v < -1e-9) or (m.objective_direction == "min" and v > 1e-9)
    except Exception:
        return False


def _same(a, b):
    """Structural equality of two result descriptions; numbers (already rounded to the
    analysis' digits) are equal up to 1.5e-4 relative - two roundings of one value can
    land on different sides of a rounding boundary, state carried over does not hide
    behind the fifth digit."""
    if isinstance(a, float) or isinstance(b, float):
        try:
            return abs(float(a) - float(b)) <= 1.5e-4 * max(1.0, abs(float(a)), abs(float(b)))
        except (TypeError, ValueError):
            return a == b
    if isinstance(a, dict) and isinstance(b, dict):
        return a.keys() == b.keys() and all(_same(a[k], b[k]) for k in a)
    if isinstance(a, (list, tuple)) and isinstance(b, (list, tuple)):
        return len(a) == len(b) and all(_same(x, y) for x, y in zip(a, b))
    return a == b


MINIMISING = {"pfba", "pfba(fraction)", "moma(linear)", "room(linear)", "room", "geometric_fba"}


def _warm_start_suboptimum(name, fn, rng, a2, m_use, r1, r2):
    """Proves the recorded solver mechanism: both calls report status optimal for a
    minimisation, the values differ, and the same call on a fresh copy of the model (cold
    basis, same problem) returns the *smaller* one - i.e. on the warm basis left by the
    previous call GLPK declared a non-optimal point optimal."""
    try:
        if name in MINIMISING:
            if not (r1[0] == r2[0] == "optimal") or _same(r1[1], r2[1]):
                return None
            with warnings.catch_warnings():
                warnings.simplefilter("ignore")
                cold = fn(m_use.copy(), rng, a2)
            if cold[0] == "optimal" and _same(cold[1], min(r1[1], r2[1])):
                return {"first": r1, "second": r2, "cold": cold}
            return None
        if name.startswith("production_envelope"):
            # same mechanism seen from a maximisation (thorough tier, seed 3): the model - content and raw solver
            # problem - is identical before both calls (checked above), yet one call reports other optima.  Proof that
            # only the solver's warm state differs: a fresh copy (cold basis) and a third call on the same model both
            # return one and the same of the two results.
            with warnings.catch_warnings():
                warnings.simplefilter("ignore")
                cold = fn(m_use.copy(), rng, a2)
                third = fn(m_use, rng, a2)
            for good in (r1, r2):
                if _same(cold, good) and _same(third, good):
                    return {"first": r1, "second": r2, "cold": cold, "third": third}
    except Exception:
        return None
    return None


def _only_borderline(name, r1, r2, model):
    """find_essential_*: the two sets may differ in items whose knock-out growth equals
    the threshold (1 % of the optimum) up to float noise - a tie, decided exactly."""
    if not name.startswith("find_essential"):
        return False
    try:
        P = oracles.Problem(model)
        z = P.optimum()
        if z.status != "optimal":
            return False
        thr = float(z.obj) * 0.01
        for item in set(r1) ^ set(r2):
            if name.endswith("genes"):
                g = model.genes.get_by_id(item)
                ko = {r.id for r in g.reactions if not r.gpr.eval({item})}
            else:
                ko = {item}
            q = oracles.Problem(model, knocked=ko).optimum()
            if q.status != "optimal" or abs(float(q.obj) - thr) > 1e-6 * max(1.0, abs(thr)):
                return False
        return True
    except Exception:
        return False


def run_probe(pr, acc):
    """Committed case for the recorded warm-start finding: one analysis called twice on a
    model built from a fixed recipe."""
    A = analyses()
    fn, _p = A[pr["analysis"]]
    if pr["analysis"] == "room(linear)":
        # the probe keeps the call form under which the finding was recorded (default reference: the two internal
        # pFBA references differ by 2e-14, the reported optima by 1.75; exact optimum 0 for both)
        import cobra.flux_analysis as fa

        fn = lambda m, rng, x: _sol(fa.room(m, linear=True), 4)
    with warnings.catch_warnings():
        warnings.simplefilter("ignore")
        model = gen.build(pr["recipe"])
        rng = gen.rng_for("C13probe", pr["name"])
        a2 = {"p": 1}
        r1 = fn(model, rng, a2)
        r2 = fn(model, rng, a2)
    acc.ev()
    acc.count("probes_run")
    ws = _warm_start_suboptimum(pr["analysis"], fn, rng, a2, model, r1, r2)
    if ws:
        acc.violation("C13/second-call-differs/solver-declares-a-non-optimal-point-optimal-on-the-warm-basis", f"{pr['analysis']}: first call {ws['first']}, second call {ws['second']}, on a fresh copy (cold basis) {ws['cold']}", {"probe": pr["name"], **ws})
    elif not _same(r1, r2):
        acc.violation(f"C13/{pr['analysis']}/second-call-differs", f"calling {pr['analysis']} twice gave different results: {r1} vs {r2}", {"probe": pr["name"]})


def run_shard(desc, acc):
    _TIER[0] = desc.get("tier", "thorough")
    if desc.get("kind") == "probes":
        for pr in desc["probes"]:
            run_probe(pr, acc)
        return
    A = analyses()
    first = desc.get("first", 0)
    for case in range(first, first + desc["cases"]):
        run_case(desc["base"], case, acc, A)
        acc.checkpoint()


def replay(w, acc):
    run_case(w["base"], w["case"], acc, analyses())
