"""C10 - SBML export is valid and import(export(model)) is the same model.

Oracle: (a) the SBML validator on the written document; (b) description of the re-read
model equal to the original's under the documented equivalences (floats to 15
significant digits, gene rules by truth table, annotations as provider -> identifiers,
everything else exact) plus agreement of the raw solver problems; (c) a second round
trip changes nothing (exact); (d) for shipped files an *independent reader* (stdlib
xml.etree, no libsbml) extracts stoichiometry, fbc flux bounds and the active objective
and the cobra model must agree unless cobrapy logged a warning naming that element.
"""
import gzip
import bz2
import io
import logging
import math
import os
import re
import tempfile
import warnings
import xml.etree.ElementTree as ET

from cv import gen, ioequiv, observe
from cv.acc import h

PROPERTY = "C10"
LEVEL = "exploration"
RULE = (
    "case = one SBML round trip of a generated model (ids with punctuation, leading digits, "
    "non-ASCII, SBML-prefix-like, escape-like patterns; bounds below/above the configured "
    "defaults, infinite, fixed; min/max objectives; nested rules; groups of reactions / "
    "metabolites / genes; notes, annotations, names, formulas, charges) via path, file handle or "
    "string, with the default id replacement or f_replace={} (SId-clean ids only); or one shipped "
    "SBML file read and cross-checked by an independent XML reader.  Non-trivial when the model "
    "has >= 1 non-default attribute class; distinct by (model hash, channel, f_replace)."
    " Written documents are also rewritten as fbc version 1 (validated by libsbml) and cross-checked by the independent reader."  # third-session additions
)
ASSUMPTIONS = [
    "floats compared to 15 significant digits as the property states; a second round trip exactly",
    "names without surrounding blanks, plain-text notes",
    "independent reader covers fbc-v2 documents; other flavours of shipped files are read and validated only",
]
REACH = [
    "io/sbml.py:_model_to_sbml",
    "io/sbml.py:_sbml_to_model",
    "io/sbml.py:_create_bound",
    "io/sbml.py:_f_reaction_rev",
    "io/sbml.py:_sbase_annotations",
    "io/sbml.py:_parse_annotations",
    "io/sbml.py:validate_sbml_model",
]
FBC = "{http://www.sbml.org/sbml/level3/version1/fbc/version2}"
CORE = "{http://www.sbml.org/sbml/level3/version1/core}"


def minimums(tier):
    return {
        "evaluations": 400,
        "distinct_nontrivial": 150,
        "counters": {"round_trips": 200, "documents_validated": 200, "second_round_trips": 150, "lp_comparisons": 150, "shipped_files_cross_checked": 3, "models_with_groups": 30},
        "sets": {"channels": 3, "id_styles": 6},
    }


def plan(tier, seed):
    n = 15 if tier == "quick" else 60
    per = 40 if tier == "quick" else 300
    out = [{"kind": "generated", "cases": per, "base": seed * 1000003 + k} for k in range(n)]
    out.append({"kind": "shipped"})
    return out


LIBSBML_INFIX_WORDS = {"True", "False", "true", "false", "and", "or", "not", "AND", "OR", "NOT", "TRUE", "FALSE"}
BAD_KEYS = ("SBML_FATAL", "SBML_ERROR", "SBML_SCHEMA_ERROR", "COBRA_FATAL", "COBRA_ERROR")


def sid_clean(s):
    return re.fullmatch(r"[A-Za-z_][A-Za-z0-9_]*", s) is not None


def write_read(model, channel, tmpdir, f_replace):
    import cobra.io as cio

    kw = {} if f_replace == "default" else {"f_replace": {}}
    p = os.path.join(tmpdir, "m.xml")
    if channel == "path":
        cio.write_sbml_model(model, p, **kw)
        return cio.read_sbml_model(p, **kw), p
    if channel == "handle":
        with open(p, "w") as f:
            cio.write_sbml_model(model, f, **kw)
        with open(p) as f:
            return cio.read_sbml_model(f, **kw), p
    # string
    cio.write_sbml_model(model, p, **kw)
    with open(p) as f:
        txt = f.read()
    return cio.read_sbml_model(txt, **kw), p


def escape_ambiguous(ids):
    return [i for i in ids if re.search(r"__\d+__", i)]


def third_party_variant(path, out, rng):
    """Rewrite a valid fbc-v2 document written by cobrapy into an equally valid document of
    a shape cobrapy itself never writes: a species referenced more than once by a reaction
    (on both sides, or twice on one side).  Returns a label, or None if not applicable."""
    data = open(path, "rb").read()
    root = ET.fromstring(data)
    ns = root.tag.split("}")[0] + "}"
    rxns = [r for r in root.iter(ns + "reaction") if r.find(ns + "listOfReactants") is not None and len(r.find(ns + "listOfReactants"))]
    if not rxns:
        return None
    done = []
    for r in rng.sample(rxns, min(2, len(rxns))):
        reac = r.find(ns + "listOfReactants")
        prod = r.find(ns + "listOfProducts")
        src = rng.choice(list(reac))
        kind = rng.choice(["both-sides", "both-sides", "twice-as-reactant"])
        new = ET.Element(ns + "speciesReference", dict(src.attrib))
        new.attrib["stoichiometry"] = rng.choice(["1", "2", "0.5", src.attrib.get("stoichiometry", "1")])
        if kind == "both-sides":
            if prod is None:
                prod = ET.SubElement(r, ns + "listOfProducts")
                # listOfProducts must follow listOfReactants
                r.remove(prod)
                r.insert(list(r).index(reac) + 1, prod)
            prod.append(new)
        else:
            reac.append(new)
        done.append(kind)
    ET.register_namespace("", ns.strip("{}"))
    ET.register_namespace("fbc", "http://www.sbml.org/sbml/level3/version1/fbc/version2")
    ET.register_namespace("groups", "http://www.sbml.org/sbml/level3/version1/groups/version1")
    with open(out, "wb") as f:
        f.write(ET.tostring(root, xml_declaration=True, encoding="UTF-8"))
    return "+".join(sorted(set(done)))


def run_generated(desc, acc):
    import cobra
    import cobra.io as cio

    with tempfile.TemporaryDirectory(prefix="cv-c10-") as tmpdir:
        cfg0 = cobra.Configuration().bounds
        for case in range(desc.get("first", 0), desc.get("first", 0) + desc["cases"]):
            cobra.Configuration().bounds = cfg0
            rng = gen.rng_for("C10", desc["base"], case)
            f_replace = rng.choice(["default", "default", "default", "none"])
            style = rng.choice(gen.ID_STYLES) if f_replace == "default" else "plain"
            acc.add("id_styles", style)
            model, rec = gen.io_model(rng, id_styles=[style, "plain"])
            if f_replace == "none":
                if not all(sid_clean(x.id) for x in list(model.reactions) + list(model.metabolites) + list(model.genes)):
                    # gene ids from the awkward pool: rename to clean ones
                    from cobra.manipulation import rename_genes

                    rename_genes(model, {g.id: f"gc{i}" for i, g in enumerate(model.genes) if not sid_clean(g.id)})
                if not all(sid_clean(x.id) for x in list(model.reactions) + list(model.metabolites) + list(model.genes)):
                    acc.count("skipped_not_sid_clean")
                    continue
                if rng.random() < 0.5:
                    # identifiers that *look* like the default replacement had been applied
                    # (R_, M_, G_ prefixes, __NN__ escapes): without replacement they are
                    # plain identifiers and must come back as they are
                    from cobra.manipulation import rename_genes

                    try:
                        for r in rng.sample(list(model.reactions), min(2, len(model.reactions))):
                            r.id = "R_" + r.id
                        for m_ in rng.sample(list(model.metabolites), min(2, len(model.metabolites))):
                            m_.id = rng.choice(["M_", "M__45__"]) + m_.id
                        if len(model.genes):
                            g0 = rng.choice(list(model.genes))
                            rename_genes(model, {g0.id: "G_" + g0.id})
                        acc.count("no_replacement_models_with_prefix_like_ids")
                    except Exception:
                        pass
            cfg = cobra.Configuration()
            cfg_old = cfg.bounds
            cfg_new = rng.choice([None, None, None, (-10000.0, 10000.0), (-100.0, 100.0), (-999999.0, 999999.0), (-1000.0, 500.0), (0.0, 1000.0)])
            extra_bounds = []
            if cfg_new is not None:
                # the default bounds are a run-time setting: written and read under another
                # setting than the one in force when cobra was imported
                cfg.bounds = cfg_new
                acc.count("round_trips_under_changed_default_bounds")
                extra_bounds = [(cfg_new[0], cfg_new[1]), (cfg_old[0], cfg_old[1]), (cfg_new[0], 0.0), (cfg_old[0], 0.0), (0.0, cfg_old[1]), (0.0, cfg_new[1])]
                extra_bounds = [b for b in extra_bounds if b[0] <= b[1]] * 2
            for r in rng.sample(list(model.reactions), min(4 if cfg_new else 3, len(model.reactions))):
                r.bounds = rng.choice(extra_bounds + [(2000.0, 3000.0), (-3000.0, -2000.0), (-0.5, 0.25), (float("-inf"), float("inf")), (0.0, float("inf")), (1e-3, 1e6), (5.0, 5.0), (-1234.5678, 0.1 + 0.2), (-1000.0, 1000.0), (0.0, 1000.0)])
            if rng.random() < 0.3:
                model.objective_direction = "min"
            if len(model.groups):
                acc.count("models_with_groups")
            a = ioequiv.describe(model)
            raw_a = observe.raw_lp(model)
            sig = h(a)
            channel = rng.choice(["path", "handle", "string"])
            acc.add("channels", channel)
            ident = {"base": desc["base"], "case": case, "channel": channel, "f_replace": f_replace, "id_style": style}
            acc.journal(dict(ident, about_to_run="sbml round trip"))
            acc.ev()
            all_ids = list(a["reactions"]) + list(a["metabolites"]) + list(a["genes"]) + list(a["groups"])
            amb = escape_ambiguous(all_ids) if f_replace == "default" else []
            try:
                with warnings.catch_warnings():
                    warnings.simplefilter("ignore")
                    m1, path = write_read(model, channel, tmpdir, f_replace)
            except Exception as e:
                cause = e.__cause__ or e.__context__
                ctxt = f"{type(cause).__name__}: {cause}" if cause is not None else ""
                key = f"C10/round-trip-raised/{type(e).__name__}" + (f"/{type(cause).__name__}" if cause is not None else "")
                msg = str(e)[:120] + " <- " + ctxt
                if cause is not None and isinstance(cause, ValueError) and "lower bound must be less than or equal to the upper bound" in str(cause):
                    key = "C10/read/bounds-set-one-at-a-time"
                if amb:
                    key = "C10/id-escaping-not-injective/ids-containing-__digits__"
                elif any(k == "Gene" for g in a["groups"].values() for k, _ in g["members"]) and "KeyError" in msg + type(e).__name__ and "G_" in msg:
                    key = "C10/groups/gene-member-not-resolved-on-read"
                acc.violation(key, f"SBML round trip raised {type(e).__name__}: {msg[:300]}", dict(ident, model=_brief(a), ambiguous_ids=amb))
                continue
            acc.count("round_trips")
            # (a) validity
            try:
                with warnings.catch_warnings():
                    warnings.simplefilter("ignore")
                    _m, errors = cio.validate_sbml_model(path, **({} if f_replace == "default" else {"f_replace": {}}))
                acc.count("documents_validated")
                bad = {k: v[:2] for k, v in errors.items() if k in BAD_KEYS and v}
            except Exception as e:
                bad = {"validator-raised": [f"{type(e).__name__}: {e}"]}
            reserved = [g for g in a["genes"] if g in LIBSBML_INFIX_WORDS] if f_replace == "none" else []
            if bad and reserved:
                acc.violation("C10/f_replace-none/gene-id-reserved-in-libsbml-infix", f"with f_replace={{}} the gene id {reserved[0]!r} is a literal of libsbml's infix association syntax: invalid document ({sorted(bad)[0]})", dict(ident, reserved=reserved, errors={k: [str(x)[:200] for x in v] for k, v in bad.items()}))
                continue
            if bad:
                kind = sorted(bad)[0]
                first = str(bad[kind][0])
                code = re.search(r"E\d+ \((\w+)\)|\[(\w+)\]", first)
                acc.violation(f"C10/invalid-document/{kind}", f"the written SBML document is rejected by the validator: {kind}: {first[:200]}", dict(ident, errors={k: [str(x)[:300] for x in v] for k, v in bad.items()}, model=_brief(a)))
                continue
            # (d') the same document in a shape only third parties write
            if f_replace == "default" and rng.random() < 0.35:
                tp = os.path.join(tmpdir, "third_party.xml")
                try:
                    lab3 = third_party_variant(path, tp, rng)
                except Exception as e:
                    lab3 = None
                    acc.harness_error("third-party variant", e)
                if lab3:
                    acc.add("third_party_shapes", lab3)
                    cross_check(acc, tp, dict(ident, third_party=lab3), "third-party")
            if f_replace == "default" and rng.random() < 0.3:
                tp = os.path.join(tmpdir, "third_party_fbc1.xml")
                try:
                    lab3 = third_party_fbc1(path, tp, rng)
                except Exception as e:
                    lab3 = None
                    acc.harness_error("third-party fbc1 variant", e)
                if lab3 and not _libsbml_errors(tp):
                    acc.add("third_party_shapes", lab3)
                    acc.count("third_party_fbc1_documents")
                    cross_check(acc, tp, dict(ident, third_party=lab3), "third-party")
                elif lab3:
                    acc.count("third_party_rewrites_rejected_by_libsbml_skipped")  # my rewrite, not a valid third-party file
            # (b) equivalence
            b = ioequiv.describe(m1)
            d = ioequiv.diff(a, b, digits=15, ignore=("reactions.subsystem",))
            if d:
                byfield = {}
                for x in d:
                    f = ioequiv.field_of(x)
                    if f == "reaction.rule" and f_replace == "none" and any(repr(g) in x.split(" -> ")[0] for g in a["genes"] if g in LIBSBML_INFIX_WORDS):
                        f = "f_replace-none/gene-id-reserved-in-libsbml-infix"
                    if f == "model.id" and not sid_clean(a["id"]) and b["id"] in ("", None):
                        f = "model-id-not-an-SId-dropped"
                    if amb and (any(repr(i) in x for i in amb) or any(repr(_unescaped(i)) in x for i in amb)):
                        f = "id-escaping-not-injective/ids-containing-__digits__"
                    byfield.setdefault(f, []).append(x)
                go_on = True
                for f, xs in sorted(byfield.items()):
                    key = "C10/" + f if f.startswith(("id-escaping", "f_replace-none", "model-id-not")) else "C10/differs/" + f
                    acc.violation(key, f"after the SBML round trip: {xs[0]}", dict(ident, diffs=xs[:6], model=_brief(a), ambiguous_ids=amb))
                    if f != "model-id-not-an-SId-dropped":
                        go_on = False
                if not go_on:
                    continue
                # only the (known) model id mechanism: the rest is still compared
                b["id"] = a["id"]
            acc.count("lp_comparisons")
            try:
                raw_b = observe.raw_lp(m1)
                what = ("cols", "rows", "obj", "dir") if raw_a["obj"] or raw_b["obj"] else ("cols", "rows", "obj")
                ld = observe.lp_diff(raw_a, raw_b, rel=1e-14, what=what) + observe.fba_problems(m1, raw=raw_b)
            except Exception as e:
                ld = [f"solver problem unreadable: {type(e).__name__}: {e}"]
            if ld:
                acc.violation("C10/solver-problem-differs", f"after the round trip the solver problem differs: {ld[0]}", dict(ident, diffs=ld[:6], model=_brief(a)))
                continue
            # (c) second round trip: nothing further changes
            try:
                with warnings.catch_warnings():
                    warnings.simplefilter("ignore")
                    m2, _p = write_read(m1, channel, tmpdir, f_replace)
                d2 = ioequiv.diff(b, ioequiv.describe(m2), digits=None, ignore=("id",) if not sid_clean(a["id"]) else ())
            except Exception as e:
                d2 = [f"second round trip raised {type(e).__name__}: {e}"]
            acc.count("second_round_trips")
            if d2:
                fields = sorted({ioequiv.field_of(x) for x in d2})
                acc.violation("C10/second-round-trip-changes/" + "+".join(fields[:3]), f"second SBML round trip: {d2[0]}", dict(ident, diffs=d2[:6]))
                continue
            acc.nontrivial(sig, channel, f_replace)
            if case < 2:
                acc.sample({"id_style": style, "f_replace": f_replace, "channel": channel, "reactions": list(a["reactions"])[:5], "groups": list(a["groups"]), "direction": a["direction"]})
            acc.checkpoint()


def _unescaped(i):
    return re.sub(r"__(\d+)__", lambda m: chr(int(m.group(1))), i)


def _brief(a):
    return {"reactions": {k: [v["lower_bound"], v["upper_bound"], v["obj"]] for k, v in list(a["reactions"].items())[:10]}, "direction": a["direction"], "genes": list(a["genes"]), "groups": {k: v["members"] for k, v in a["groups"].items()}}


# ---------------------------------------------------------------------------
# (d) independent reader for shipped files
# ---------------------------------------------------------------------------
def independent_read(path):
    if path.endswith(".gz"):
        data = gzip.open(path, "rb").read()
    elif path.endswith(".bz2"):
        data = bz2.open(path, "rb").read()
    else:
        data = open(path, "rb").read()
    root = ET.fromstring(data)
    ns_core = root.tag.split("}")[0] + "}"
    model = root.find(ns_core + "model")
    if model is None:
        return None
    fbc_ns = None
    for k in ("{http://www.sbml.org/sbml/level3/version1/fbc/version2}",):
        if model.find(".//" + k + "listOfObjectives") is not None or any(k + "lowerFluxBound" in r.attrib for r in model.iter(ns_core + "reaction")):
            fbc_ns = k
    if fbc_ns is None:
        v1 = "{http://www.sbml.org/sbml/level3/version1/fbc/version1}"
        if model.find(v1 + "listOfFluxBounds") is not None or model.find(v1 + "listOfObjectives") is not None:
            return _independent_read_fbc1(model, ns_core, v1)
        return _independent_read_legacy(model, ns_core)
    params = {}
    for p in model.iter(ns_core + "parameter"):
        if "value" in p.attrib:
            v = p.attrib["value"]
            params[p.attrib["id"]] = float({"INF": "inf", "-INF": "-inf"}.get(v, v))
    rx = {}
    for r in model.iter(ns_core + "reaction"):
        st = {}
        for side, sgn in (("listOfReactants", -1), ("listOfProducts", 1)):
            lst = r.find(ns_core + side)
            if lst is None:
                continue
            for sr in lst.findall(ns_core + "speciesReference"):
                st[sr.attrib["species"]] = st.get(sr.attrib["species"], 0.0) + sgn * float(sr.attrib.get("stoichiometry", "1"))
        lb = params.get(r.attrib.get(fbc_ns + "lowerFluxBound"))
        ub = params.get(r.attrib.get(fbc_ns + "upperFluxBound"))
        rx[r.attrib["id"]] = {"stoich": {k: v for k, v in st.items() if v != 0}, "lb": lb, "ub": ub}
    obj = None
    lo = model.find(fbc_ns + "listOfObjectives")
    if lo is not None:
        active = lo.attrib.get(fbc_ns + "activeObjective")
        for o in lo.findall(fbc_ns + "objective"):
            if o.attrib.get(fbc_ns + "id") == active:
                coefs = {}
                for fo in o.iter(fbc_ns + "fluxObjective"):
                    coefs[fo.attrib[fbc_ns + "reaction"]] = float(fo.attrib[fbc_ns + "coefficient"])
                obj = {"type": o.attrib.get(fbc_ns + "type"), "coefs": {k: v for k, v in coefs.items() if v != 0}}
    return {"reactions": rx, "objective": obj}


def _stoich(r, ns_core):
    st = {}
    for side, sgn in (("listOfReactants", -1), ("listOfProducts", 1)):
        lst = r.find(ns_core + side)
        if lst is None:
            continue
        for sr in lst.findall(ns_core + "speciesReference"):
            st[sr.attrib["species"]] = st.get(sr.attrib["species"], 0.0) + sgn * float(sr.attrib.get("stoichiometry", "1"))
    return {k: v for k, v in st.items() if v != 0}


def _independent_read_fbc1(model, ns_core, v1):
    """fbc version 1: bounds are a model-level list of (reaction, operation, value)."""
    def num(v):
        return float({"INF": "inf", "-INF": "-inf"}.get(v, v))

    rx = {r.attrib["id"]: {"stoich": _stoich(r, ns_core), "lb": None, "ub": None} for r in model.iter(ns_core + "reaction")}
    lfb = model.find(v1 + "listOfFluxBounds")
    for fb in lfb.findall(v1 + "fluxBound") if lfb is not None else []:
        rid, op, val = fb.attrib.get(v1 + "reaction"), fb.attrib.get(v1 + "operation"), num(fb.attrib.get(v1 + "value"))
        if rid not in rx:
            continue
        if op in ("greaterEqual", "equal"):
            rx[rid]["lb"] = val
        if op in ("lessEqual", "equal"):
            rx[rid]["ub"] = val
    obj = None
    lo = model.find(v1 + "listOfObjectives")
    if lo is not None:
        active = lo.attrib.get(v1 + "activeObjective")
        for o in lo.findall(v1 + "objective"):
            if o.attrib.get(v1 + "id") == active:
                coefs = {fo.attrib[v1 + "reaction"]: float(fo.attrib[v1 + "coefficient"]) for fo in o.iter(v1 + "fluxObjective")}
                obj = {"type": o.attrib.get(v1 + "type"), "coefs": {k: v for k, v in coefs.items() if v != 0}}
    return {"reactions": rx, "objective": obj, "fbc1": True}


def _libsbml_errors(path):
    """Errors (not warnings) of libsbml's own consistency check: the gate for calling a rewritten document 'valid'."""
    import libsbml

    doc = libsbml.readSBMLFromFile(path)
    doc.setConsistencyChecks(libsbml.LIBSBML_CAT_UNITS_CONSISTENCY, False)
    doc.setConsistencyChecks(libsbml.LIBSBML_CAT_MODELING_PRACTICE, False)
    doc.checkConsistency()
    return [doc.getError(i).getShortMessage() for i in range(doc.getNumErrors()) if doc.getError(i).getSeverity() >= libsbml.LIBSBML_SEV_ERROR]


def third_party_fbc1(path, out, rng):
    """Rewrite a valid fbc-v2 document written by cobrapy as an fbc *version 1* document (bounds as a
    model-level listOfFluxBounds - a fixed flux written either as one 'equal' or as two entries -, no gene
    products): the shape older tools write and cobrapy converts on reading."""
    v2 = "{http://www.sbml.org/sbml/level3/version1/fbc/version2}"
    v1 = "{http://www.sbml.org/sbml/level3/version1/fbc/version1}"
    root = ET.fromstring(open(path, "rb").read())
    ns = root.tag.split("}")[0] + "}"
    model = root.find(ns + "model")
    params = {}
    for p_ in model.iter(ns + "parameter"):
        if "value" in p_.attrib:
            params[p_.attrib["id"]] = p_.attrib["value"]
    bounds = []
    for r in model.iter(ns + "reaction"):
        lo_, hi_ = r.attrib.pop(v2 + "lowerFluxBound", None), r.attrib.pop(v2 + "upperFluxBound", None)
        if lo_ not in params or hi_ not in params:
            return None
        bounds.append((r.attrib["id"], params[lo_], params[hi_]))
        for gpa in r.findall(v2 + "geneProductAssociation"):
            r.remove(gpa)
    gone = set()
    for lst in model.findall(v2 + "listOfGeneProducts"):
        gone.update(gp.attrib.get(v2 + "id") for gp in lst)
        model.remove(lst)
    gns = "{http://www.sbml.org/sbml/level3/version1/groups/version1}"
    for grp in list(model.iter(gns + "group")):  # members that named a gene product would dangle
        for lom in grp.findall(gns + "listOfMembers"):
            for mem in [x for x in lom if x.attrib.get(gns + "idRef") in gone]:
                lom.remove(mem)
            if len(lom) == 0:  # "listOfMembers cannot be empty"
                grp.remove(lom)
    model.attrib.pop(v2 + "strict", None)
    lfb = ET.Element(v1 + "listOfFluxBounds")
    shapes = set()
    for rid, lo_, hi_ in bounds:
        if lo_ == hi_ and rng.random() < 0.5:
            ET.SubElement(lfb, v1 + "fluxBound", {v1 + "reaction": rid, v1 + "operation": "equal", v1 + "value": lo_})
            shapes.add("equal")
        else:
            pair = [("greaterEqual", lo_), ("lessEqual", hi_)]
            if rng.random() < 0.3:
                pair.reverse()
            for op, val in pair:
                ET.SubElement(lfb, v1 + "fluxBound", {v1 + "reaction": rid, v1 + "operation": op, v1 + "value": val})
    lo = model.find(v2 + "listOfObjectives")
    idx = list(model).index(lo) if lo is not None else len(list(model))
    model.insert(idx, lfb)

    def retag(el):
        if el.tag.startswith(v2):
            el.tag = v1 + el.tag[len(v2):]
        for k in [k for k in el.attrib if k.startswith(v2)]:
            el.attrib[v1 + k[len(v2):]] = el.attrib.pop(k)
        for ch in el:
            retag(ch)

    retag(root)
    ET.register_namespace("", ns.strip("{}"))
    ET.register_namespace("fbc", v1.strip("{}"))
    ET.register_namespace("groups", "http://www.sbml.org/sbml/level3/version1/groups/version1")
    with open(out, "wb") as f:
        f.write(ET.tostring(root, xml_declaration=True, encoding="UTF-8"))
    return "fbc-v1" + ("+equal" if shapes else "")


def _independent_read_legacy(model, ns_core):
    """COBRA-toolbox encoding of Level 2 / non-fbc documents: bounds and objective
    coefficient are parameters of each reaction's kinetic law."""
    def num(v):
        return float({"INF": "inf", "-INF": "-inf"}.get(v, v))

    rx = {}
    coefs = {}
    any_law = False
    for r in model.iter(ns_core + "reaction"):
        st = {}
        for side, sgn in (("listOfReactants", -1), ("listOfProducts", 1)):
            lst = r.find(ns_core + side)
            if lst is None:
                continue
            for sr in lst.findall(ns_core + "speciesReference"):
                st[sr.attrib["species"]] = st.get(sr.attrib["species"], 0.0) + sgn * float(sr.attrib.get("stoichiometry", "1"))
        lb = ub = None
        law = r.find(ns_core + "kineticLaw")
        if law is not None:
            for pel in list(law.iter(ns_core + "parameter")) + list(law.iter(ns_core + "localParameter")):
                pid, val = pel.attrib.get("id"), pel.attrib.get("value")
                if val is None:
                    continue
                if pid == "LOWER_BOUND":
                    lb, any_law = num(val), True
                elif pid == "UPPER_BOUND":
                    ub, any_law = num(val), True
                elif pid == "OBJECTIVE_COEFFICIENT" and num(val) != 0:
                    coefs[r.attrib["id"]] = num(val)
        rx[r.attrib["id"]] = {"stoich": {k: v for k, v in st.items() if v != 0}, "lb": lb, "ub": ub}
    if not any_law:
        return None
    return {"reactions": rx, "objective": {"type": None, "coefs": coefs}, "legacy": True}


class LogCatcher(logging.Handler):
    def __init__(self):
        super().__init__()
        self.lines = []

    def emit(self, record):
        try:
            self.lines.append(record.getMessage())
        except Exception:
            pass


def run_shipped(desc, acc):
    import cobra.io as cio
    from cobra.io.sbml import F_REACTION, F_REPLACE, F_SPECIE
    from cobra.util.solver import linear_reaction_coefficients

    base = os.environ.get("CV_COBRA_SRC")
    data = os.path.join(base, "cobra", "data") if base else "/repo/src/cobra/data"
    files = [os.path.join(data, f) for f in ("textbook.xml.gz", "mini_cobra.xml", "salmonella.xml.gz", "iJO1366.xml.gz")]
    files += [os.path.join("/repo/tests/data", f) for f in ("e_coli_core.xml", "mini_fbc2.xml", "mini_fbc2.xml.gz", "mini_fbc2.xml.bz2", "fbc_ex1.xml", "fbc_ex2.xml", "annotation.xml", "example_notes.xml", "mini_fbc1.xml", "mini_cobra.xml", "mini_history.xml")]
    for path in files:
        if not os.path.exists(path):
            continue
        cross_check(acc, path, {"file": path}, "shipped")


def cross_check(acc, path, ident, label):
    """Read `path` with cobrapy and with the independent reader; every reaction's
    stoichiometry and bounds and the active objective must agree unless cobrapy logged a
    warning that names the element."""
    import cobra.io as cio
    from cobra.io.sbml import F_REACTION, F_REPLACE, F_SPECIE
    from cobra.util.solver import linear_reaction_coefficients

    acc.journal(dict(ident, about_to_run="read shipped"))
    catcher = LogCatcher()
    logging.disable(logging.NOTSET)
    lg = logging.getLogger("cobra.io.sbml")
    lg.addHandler(catcher)
    old_level = lg.level
    lg.setLevel(logging.WARNING)
    try:
        with warnings.catch_warnings(record=True) as wlist:
            warnings.simplefilter("always")
            m = cio.read_sbml_model(path)
    except Exception as e:
        acc.ev()
        acc.violation(f"C10/{label}/read-raised/{type(e).__name__}", f"reading {os.path.basename(path)} raised {e}", ident)
        return
    finally:
        lg.removeHandler(catcher)
        lg.setLevel(old_level)
        logging.disable(logging.CRITICAL)
    said = " ".join(catcher.lines + [str(w.message) for w in wlist])
    acc.ev()
    acc.count(label.replace("-", "_") + "_files_read")
    ind = independent_read(path)
    if ind is None:
        acc.count("shipped_files_not_fbc2_read_only")
        return
    acc.count(label.replace("-", "_") + "_files_cross_checked")
    fr, fs = F_REPLACE[F_REACTION], F_REPLACE[F_SPECIE]
    objc = {r.id: v for r, v in linear_reaction_coefficients(m).items()}
    nbad = 0
    for sid, rr in ind["reactions"].items():
        rid = fr(sid)
        acc.count(label.replace("-", "_") + "_reactions_cross_checked")
        if rid not in m.reactions:
            if sid not in said and rid not in said:
                acc.violation("C10/" + label + "/reaction-silently-dropped", f"{os.path.basename(path)}: reaction {sid} is not in the model and no warning names it", dict(ident, reaction=sid))
                nbad += 1
            continue
        r = m.reactions.get_by_id(rid)
        got = {mm.id: v for mm, v in r.metabolites.items()}
        want = {}
        for k, v in rr["stoich"].items():
            want[fs(k)] = want.get(fs(k), 0.0) + v
        want = {k: v for k, v in want.items() if v != 0}
        if set(got) != set(want) or any(not ioequiv.feq(float(got[k]), float(want[k]), 15) for k in got):
            if sid not in said and rid not in said:
                acc.violation("C10/" + label + "/stoichiometry-silently-altered", f"{os.path.basename(path)}: {sid} file says {want}, model has {got}", dict(ident, reaction=sid))
                nbad += 1
        for nm, fv, mv in (("lower", rr["lb"], r.lower_bound), ("upper", rr["ub"], r.upper_bound)):
            if fv is not None and not ioequiv.feq(float(fv), float(mv), 15):
                # a warning excuses an alteration only if it does not contradict the document:
                # "Missing lower flux bound ..." about a bound the document does give is no excuse
                lines = catcher.lines + [str(w.message) for w in wlist]
                other = "upper" if nm == "lower" else "lower"
                naming = [ln for ln in lines if (sid in ln or rid in ln) and "bound" in ln.lower() and not (other in ln.lower() and nm not in ln.lower())]
                honest = [ln for ln in naming if not ln.startswith(f"Missing {nm} flux bound")]
                if naming and not honest:
                    acc.violation(f"C10/{label}/{nm}-bound-in-the-document-reported-missing", f"{os.path.basename(path)}: {sid} has a {nm} bound of {fv} in the document, the reader says it is missing and sets {mv}", dict(ident, reaction=sid))
                    nbad += 1
                elif not naming:
                    acc.violation(f"C10/{label}/{nm}-bound-silently-altered", f"{os.path.basename(path)}: {sid} {nm} bound in file {fv}, model has {mv}", dict(ident, reaction=sid))
                    nbad += 1
        if nbad > 3:
            break
    if ind["objective"] is not None:
        want = {fr(k): v for k, v in ind["objective"]["coefs"].items()}
        if {k: float(v) for k, v in objc.items()} != {k: float(v) for k, v in want.items()} and "objective" not in said.lower():
            acc.violation("C10/" + label + "/objective-silently-altered", f"{os.path.basename(path)}: active objective in file {want}, model reports {objc}", ident)
        wantdir = {"maximize": "max", "minimize": "min"}.get(ind["objective"]["type"])
        if wantdir and m.objective_direction != wantdir and "objective" not in said.lower():
            acc.violation("C10/" + label + "/objective-direction-silently-altered", f"{os.path.basename(path)}: file says {ind['objective']['type']}, model {m.objective_direction}", ident)
    if label == "shipped":
        acc.nontrivial("shipped", os.path.basename(path))
        acc.sample({"shipped": os.path.basename(path), "reactions": len(ind["reactions"]), "warnings_logged": len(catcher.lines)}) if path.endswith("e_coli_core.xml") else None
    acc.checkpoint()




def run_shard(desc, acc):
    if desc["kind"] == "generated":
        run_generated(desc, acc)
    else:
        run_shipped(desc, acc)


def replay(w, acc):
    if "file" in w:
        run_shipped({}, acc)
    else:
        run_generated({"base": w["base"], "first": w["case"], "cases": 1}, acc)
