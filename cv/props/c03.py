"""C03 - leaving a `with model:` block restores the model completely.

Monitor shape: invariant at a hook.  Model.__enter__/__exit__ are wrapped (ContextTap):
a whole-state snapshot (content by id, cross references, raw GLPK problem) is pushed on
a shadow stack at every __enter__ and compared with the state after the matching
__exit__.  Workload: 1-3 nested blocks, 1-12 documented-as-reversible operations
distributed over the levels; blocks end normally, by a harness exception raised
between operations (every position enumerated for short blocks) or by an operation
that raises by itself after partial work.
"""
import os

from cv import gen, hist, observe, ops
from cv.acc import h

VERBOSE = bool(os.environ.get("CV_VERBOSE"))
observe.COMPARE_OBJECTIVE_NAME = True
PROPERTY = "C03"
LEVEL = "fault_enumeration"
RULE = (
    "case = one context exit.  Blocks hold 1-12 operations documented as reversible "
    "(bounds, knock-outs, objective/direction, stoichiometry edits incl. += -= *=, gene "
    "rules, add/remove reactions/metabolites/boundaries/constraints/variables, "
    "remove_genes/rename_genes, medium, merge, add_pfba/add_moma/add_room/"
    "fix_objective_as_constraint) in 1-3 nested contexts on generated, mini and textbook "
    "models; exit kinds: normal / exception between operations (every position for "
    "blocks of <=4 operations) / operation raising by itself.  Non-trivial when the "
    "operations changed the snapshot; distinct by (depth, multiset of operation kinds, "
    "exit kind)."
    " Failing forms include objective dictionaries naming foreign reactions or non-numeric coefficients, '*= 0', colliding names in add_cons_vars, repeated entries. Second workload: the repository's tests with the snapshot comparison armed at every outermost context."  # third-session additions
)
ASSUMPTIONS = [
    "list order of reactions/metabolites/genes is not compared (the property exempts it)",
    "operations not documented as reversible (renaming, groups, tolerance, solver switch, copy) are never placed inside a block",
    "asynchronous interruption in the middle of an operation is not injected: the property speaks of operations that raise",
]
REACH = [
    "util/context.py:HistoryManager.reset",
    "util/context.py:resettable.<locals>.wrapper",
    "core/model.py:Model.__exit__",
    "core/reaction.py:Reaction.__imul__",
    "util/solver.py:set_objective.<locals>.reset",
    "manipulation/delete.py:remove_genes",
    "manipulation/modify.py:rename_genes",
]
CRASH_IS_VIOLATION = True


class Boom(Exception):
    """Harness exception that ends a block between two operations."""


def minimums(tier):
    return {
        "evaluations": 400,
        "distinct_nontrivial": 200,
        "counters": {"exits_normal": 100, "exits_by_harness_exception": 50, "exits_after_raising_op": 30, "exits_depth_2plus": 50, "undo_entries_replayed": 500},
        "sets": {"op_kinds_inside": 30},
    }


def plan(tier, seed):
    n = 16 if tier == "quick" else 64
    per = 300 if tier == "quick" else 1200
    return [{"cases": per, "base": seed * 1000003 + k} for k in range(n)]


# ---------------------------------------------------------------------------
# ContextTap
# ---------------------------------------------------------------------------
class ContextTap:
    def __init__(self, acc):
        self.acc = acc
        self.stack = {}
        self.installed = False
        self.results = []  # (depth, diffs, exit_exception)

    def install(self):
        import cobra
        from cobra.util.context import HistoryManager

        if self.installed:
            return
        self.installed = True
        tap = self
        Model = cobra.Model
        orig_enter, orig_exit = Model.__enter__, Model.__exit__
        orig_call, orig_reset = HistoryManager.__call__, HistoryManager.reset

        def enter(model):
            st = tap.stack.setdefault(id(model), [])
            if getattr(model, "_cv_armed", False):
                st.append(observe.snapshot(model))
            return orig_enter(model)

        def exit_(model, t, v, tb):
            exc = None
            try:
                orig_exit(model, t, v, tb)
            except Exception as e:
                exc = e
                if VERBOSE:
                    import traceback

                    traceback.print_exc()
            st = tap.stack.get(id(model), [])
            if getattr(model, "_cv_armed", False) and st:
                before = st.pop()
                try:
                    after = observe.snapshot(model)
                    diffs = observe.snapshot_diff(before, after, content_rel=1e-12)
                except Exception as e:
                    diffs = [f"state unreadable after exit: {type(e).__name__}: {str(e)[:200]}"]
                tap.results.append((len(st) + 1, diffs, exc))
            if exc is not None:
                raise exc

        def call(hm, operation):
            tap.acc.count("undo_entries_recorded")
            return orig_call(hm, operation)

        def reset(hm):
            tap.acc.count("undo_entries_replayed", len(hm._history) if hasattr(hm, "_history") else 0)
            return orig_reset(hm)

        Model.__enter__, Model.__exit__ = enter, exit_
        HistoryManager.__call__, HistoryManager.reset = call, reset


_TAP = None


def tap_for(acc):
    global _TAP
    if _TAP is None:
        _TAP = ContextTap(acc)
        _TAP.install()
    _TAP.acc = acc
    return _TAP


def _diff_class(d):
    if d.startswith("LP "):
        d2 = d[3:]
        if d2.startswith("column"):
            return "lp-column"
        if d2.startswith("row") and "coef" in d2:
            return "lp-coefficient"
        if d2.startswith("row"):
            return "lp-row"
        if d2.startswith("objective direction"):
            return "lp-direction"
        if d2.startswith("objective"):
            return "lp-objective"
        return "lp"
    if d.startswith("xref"):
        return "xref"
    if d.startswith("state unreadable"):
        return "unreadable"
    parts = d.split(":")[0].split(" ")
    kind = parts[0]
    field = d.split(":")[0].split(".")[-1] if "." in d.split(":")[0] else ("presence" if "absent" in d or "present" in d else "?")
    return f"{kind}.{field}"


def run_case(base, case, acc, truncate=None):
    tap = tap_for(acc)
    rng = gen.rng_for("C03", base, case)
    kind = rng.choice(["generated"] * 7 + ["mini", "textbook", "generated-exact"])
    model, rec = hist.start_model(rng, "generated" if kind.startswith("generated") else kind)
    if kind == "generated-exact":
        model.solver = "glpk_exact"
    if rng.random() < 0.3 and len(model.reactions) > 1:
        # a group, so that group membership is part of the observed state
        import cobra

        members = rng.sample(list(model.reactions), 2) + ([model.metabolites[0]] if len(model.metabolites) else []) + ([model.genes[0]] if len(model.genes) else [])
        model.add_groups([cobra.core.Group("grp0", name="g", members=members)])
    H = ops.Hist(model, rng)
    # prologue outside any context: diversify the start state (not judged here)
    pro = ops.names(without_tags=("fail", "whole"))
    pro = [n for n in pro if n not in ("model.solver=", "model.copy", "flux_analysis.add_room", "flux_analysis.add_loopless")]
    hist.run_history(H, rng.randint(0, 5), pro, lambda *a: True)
    try:
        model.solver.update()
        if observe.xref_errors(H.model) or observe.fba_problems(H.model, ledger=H.ledger, check_objective=not H.custom_obj[-1]):
            acc.count("prologue_left_inconsistent_state_skipped")
            return
    except Exception:
        acc.count("prologue_left_inconsistent_state_skipped")
        return
    model = H.model
    model._cv_armed = True
    # (edits of reactions that are detached from the model are nobody's to undo)
    inside = ops.names(with_tags=("rev",), without_tags=("detached",))
    depth_target = rng.choice([1, 1, 2, 2, 3])
    n_ops = rng.randint(1, 12)
    exit_kind = rng.choice(["normal", "normal", "harness-exception", "harness-exception", "op-raises"])
    boom_at = rng.randint(1, n_ops) if exit_kind == "harness-exception" else None
    full_n_ops = n_ops
    if truncate is not None:
        # minimisation run: same history, cut after `truncate` operations, normal exit
        n_ops = truncate
        boom_at = None
        if exit_kind == "op-raises" and truncate < full_n_ops:
            exit_kind = "normal"
    if exit_kind == "op-raises":
        fails = ops.names(with_tags=("rev", "fail"))
    ident = {"base": base, "case": case, "start": kind, "depth": depth_target, "exit_kind": exit_kind}
    trace = []
    kinds_inside = []
    tap.results.clear()
    acc.journal(dict(ident, about_to_run="block"))

    def do_ops(level, remaining):
        """Run `remaining` operations spread over nesting levels >= level."""
        nonlocal trace
        k = 0
        while k < remaining[0]:
            if level < depth_target and rng.random() < 0.35:
                with H.model:
                    trace.append({"op": "ctx.enter", "args": {"depth": level + 1}, "raised": None})
                    do_ops(level + 1, remaining)
                trace.append({"op": "ctx.exit", "args": {"depth": level}, "raised": None})
                continue
            if remaining[0] <= 0:
                break
            idx = n_ops - remaining[0] + 1
            if boom_at is not None and idx == boom_at:
                remaining[0] = 0
                raise Boom()
            if exit_kind == "op-raises" and remaining[0] == 1:
                name = ops.pick(H, fails)
            else:
                name = ops.pick(H, inside)
            try:
                acc.journal(dict(ident, about_to_run=name, trace=trace[-10:]))
                desc = ops.OPS[name]["fn"](H)
            except ops.Skip:
                remaining[1] += 1
                if remaining[1] > 60:
                    remaining[0] = 0
                continue
            except Boom:
                raise
            except Exception as e:
                trace.append({"op": name, "args": None, "raised": hist.describe_exc(e)})
                kinds_inside.append(name)
                remaining[0] -= 1
                if exit_kind == "op-raises":
                    remaining[0] = 0
                    raise
                continue
            trace.append({"op": name, "args": desc, "raised": None})
            kinds_inside.append(name)
            remaining[0] -= 1
            if H.model is not model:
                # merge(inplace=False) returned a new model; the block goes on with the
                # one whose context is open ("leaving the left model untouched")
                H.model = model
            if VERBOSE:
                print(name, str(desc)[:200], flush=True)
        return

    outcome = None
    try:
        with H.model:
            trace.append({"op": "ctx.enter", "args": {"depth": 1}, "raised": None})
            do_ops(1, [n_ops, 0])
        outcome = "normal"
    except Boom:
        outcome = "harness-exception"
    except Exception as e:
        outcome = "op-raised:" + type(e).__name__
        last_exc = e
    for n in kinds_inside:
        acc.add("op_kinds_inside", n)
    acc._last_kinds = list(kinds_inside)
    results = list(tap.results)
    # judge every exit the tap saw (inner ones included)
    for depth, diffs, exit_exc in results:
        acc.ev()
        acc.count("exits")
        if depth >= 2:
            acc.count("exits_depth_2plus")
        if exit_exc is not None:
            acc.count("exit_raised")
    n_exits = len(results)
    if outcome == "normal":
        acc.count("exits_normal")
    elif outcome == "harness-exception":
        acc.count("exits_by_harness_exception")
    else:
        acc.count("exits_after_raising_op")
    changed = True  # the block ran at least one op
    if n_exits:
        acc.nontrivial(depth_target, tuple(sorted(set(kinds_inside))), outcome.split(":")[0])
    judge_exits(acc, tap, H, results, kinds_inside, trace, ident, outcome, rec, depth_target, (lambda k: _probe_prefix(base, case, k)) if truncate is None else None)
    model._cv_armed = False
    if case < 2:
        acc.sample({"start": kind, "depth": depth_target, "exit_kind": outcome, "trace": trace[:8]})


def _probe_prefix(base, case, k):
    from cv.acc import Acc

    probe = Acc()
    run_case(base, case, probe, truncate=k)
    return probe


def judge_exits(acc, tap, H, results, kinds_inside, trace, ident, outcome, rec, depth_target, minimise):
    """Classify what the ContextTap saw at every exit of one block."""
    for depth, diffs, exit_exc in results:
        if exit_exc is not None and not isinstance(exit_exc, Boom):
            tagk = _known_mechanism(H, exit_exc)
            acc.violation(
                tagk or f"C03/exit-raises/{type(exit_exc).__name__}/{_ops_key(kinds_inside)}",
                f"leaving the context raised {hist.describe_exc(exit_exc)}",
                dict(ident, trace=trace[-16:], exit_exception=hist.describe_exc(exit_exc), outcome=outcome),
            )
            break
        used = _removed_variable_lost_its_column(diffs, kinds_inside, ident) if diffs else None
        if used:
            acc.violation(
                "C03/not-restored/removed-variable-comes-back-without-its-coefficients",
                f"a variable removed with remove_cons_vars inside the block is re-added on exit as an empty column: {diffs[0]}",
                dict(ident, trace=trace[-16:], diffs=diffs[:10], exit_depth=depth, outcome=outcome),
            )
            break
        how = _only_outside_refs_changed(diffs) if diffs else None
        if how:
            # the two recorded mechanisms, each proved by what the block contains and by
            # the kind of object concerned; any other shape is a fresh violation
            kinds_obj = sorted({d.split(" ")[0] for d in diffs if d.startswith(("metabolite ", "gene "))})
            inside_ops = set(kinds_inside)
            if how == "dropped" and inside_ops & {"manipulation.rename_genes", "model.repair"}:
                pass  # rename_genes -> Model.repair() rebuilds back references from the model's reactions only
            elif how == "added" and kinds_obj == ["gene"] and inside_ops & {"manipulation.remove_genes", "model.add_reactions", "model.merge"} and (inside_ops & {"manipulation.remove_genes", "manipulation.rename_genes"} or _gained_refs_are_stale(H, diffs)):
                # a reaction (re-)joins the model inside the block and leaves it again on
                # exit, but an undo entry of the gene bookkeeping (remove_genes, or
                # update_genes_from_gpr dissociating the genes the reaction object still
                # carried from its earlier life) re-associates it afterwards
                pass
            else:
                how = None
        if how:
            acc.violation(
                "C03/not-restored/reference-to-reaction-outside-the-model-" + how,
                f"after leaving the context the references of a model metabolite/gene to reactions that are not part of the model differ: {diffs[0]}",
                dict(ident, trace=trace[-16:], diffs=diffs[:10], exit_depth=depth, outcome=outcome),
            )
            break
        if diffs:
            classes = sorted({_diff_class(d) for d in diffs})
            opskey = _ops_key(kinds_inside)
            if opskey == "mixed" and minimise is not None:
                # find the shortest prefix of the block that already fails: its last
                # operation is the trigger
                for k in range(1, len(kinds_inside) + 1):
                    try:
                        probe = minimise(k)
                    except Exception:
                        break
                    tap.acc = acc
                    if probe.violations:
                        opskey = "trigger=" + probe._last_kinds[-1] if getattr(probe, "_last_kinds", None) else "mixed"
                        acc.count("failing_blocks_minimised")
                        break
                tap.results.clear()
            acc.violation(
                f"C03/not-restored/{'+'.join(classes[:3])}/{opskey}",
                f"after leaving the context (depth {depth}, {outcome}) the model differs from its state at entry: {diffs[0]}",
                dict(ident, trace=trace[-16:], diffs=diffs[:10], exit_depth=depth, outcome=outcome, start_recipe=rec if len(str(rec)) < 5000 else "large"),
            )
            break


def _removed_variable_lost_its_column(diffs, kinds_inside, ident):
    """Proves the recorded mechanism: the block removed, through remove_cons_vars, variables that the
    remaining constraints/objective still used (ident['removed_used_variables'] names them), and every
    difference is a coefficient on exactly one of those columns that went to zero."""
    import re

    names = set(ident.get("removed_used_variables") or ())
    if not names or "model.remove_cons_vars(used-variable)" not in kinds_inside:
        return False
    for d in diffs:
        m = re.match(r"^LP (?:row \S+|objective): coef on (\S+) (\S+) -> (\S+)$", d)
        if not m or m.group(1) not in names or float(m.group(3)) != 0.0:
            return False
    return True


def _gained_refs_are_stale(H, diffs):
    """Second half of the proof for the 'added' mechanism, from the snapshot taken at the exit itself: no gained
    reference gene -> reaction-outside-the-model is an association that is alive on both sides (the reaction's rule
    names the gene and the reaction holds that gene object).  What the mechanism leaves behind are stale leftovers: the
    reaction object carried a gene object its own rule does not name (renamed while the reaction was outside the model)."""
    import ast
    import re

    for d in diffs:
        m = re.match(r"^gene (\S+)\.outside_live: (\(.*\)) -> (\(.*\))$", d)
        if not m:
            continue
        try:
            if set(ast.literal_eval(m.group(3))) - set(ast.literal_eval(m.group(2))):
                return False
        except Exception:
            return False
    return True


def _only_outside_refs_changed(diffs):
    """Proves the mechanism: every difference is a model metabolite/gene whose list of
    reactions differs only by reactions that are *outside the model* (free reactions the
    object was taken from, or reactions removed earlier).  Returns "dropped" (e.g.
    rename_genes -> repair() rebuilds the back references from the model's reactions
    only), "added" (an undo entry re-associates a reaction that is not in the model),
    or None."""
    import ast
    import re

    outside = {}
    inside = {}
    for d in diffs:
        if d.startswith("xref(after) ") and "that is not in the model (dangling)" in d:
            continue
        if re.match(r"^gene (\S+)\.outside_live: ", d):
            continue  # refinement of outside_reactions, judged by _gained_refs_are_stale
        m = re.match(r"^(metabolite|gene) (\S+)\.(outside_reactions|reactions): (\(.*\)) -> (\(.*\))$", d)
        if not m:
            return None
        try:
            a, b = set(ast.literal_eval(m.group(4))), set(ast.literal_eval(m.group(5)))
        except Exception:
            return None
        (outside if m.group(3) == "outside_reactions" else inside)[(m.group(1), m.group(2))] = (a - b, b - a)
    if not outside:
        return None
    for k, (lost, gained) in inside.items():
        if k not in outside:
            return None
        if not (lost <= outside[k][0] and gained <= outside[k][1]):
            return None
    lost_any = any(v[0] for v in outside.values())
    gained_any = any(v[1] for v in outside.values())
    return "dropped" if lost_any and not gained_any else ("added" if gained_any and not lost_any else "changed")


def _ops_key(kinds):
    """Mechanism part of a key: the operation kinds inside the block when there are at
    most two distinct ones (then the block identifies the mechanism), else 'mixed'."""
    ks = sorted(set(kinds))
    if len(ks) <= 2:
        return "+".join(ks)
    return "mixed"


def _known_mechanism(H, exc):
    msg = str(exc)
    if isinstance(exc, TypeError) and "of interface type optlang.glpk_interface to model of type optlang.glpk_exact_interface" in msg:
        return "C03/exit-raises/glpk_exact-objects-of-glpk-class-after-copy"
    return None


def _probe_model():
    import cobra

    m = cobra.Model("probe")
    a, b, x = (cobra.Metabolite(i, compartment=i[-1]) for i in ("a_c", "b_c", "x_e"))
    ex = cobra.Reaction("EX_x_e", lower_bound=-10, upper_bound=10)
    ex.add_metabolites({x: -1})
    t = cobra.Reaction("T", lower_bound=-10, upper_bound=10)
    t.add_metabolites({x: -1, a: 1})
    t.gene_reaction_rule = "g1 or g2"
    r = cobra.Reaction("R", lower_bound=0, upper_bound=10)
    r.add_metabolites({a: -1, b: 1})
    r.gene_reaction_rule = "g1"
    bio = cobra.Reaction("BIO", lower_bound=0, upper_bound=10)
    bio.add_metabolites({b: -1})
    m.add_reactions([ex, t, r, bio])
    m.objective = "BIO"
    return m


def run_probe(pr, acc):
    """Scripted blocks, one per recorded known finding (probes/C03/*.json name them)."""
    import pickle

    import cobra
    from cobra.manipulation import rename_genes

    tap = tap_for(acc)
    name = pr["name"]
    model = _probe_model()
    kinds = []
    if name == "glpk_exact-copy":
        model.solver = "glpk_exact"
        model = pickle.loads(pickle.dumps(model))
    elif name == "outside-reference-dropped":
        free = cobra.Reaction("free")
        newm = cobra.Metabolite("n_c", compartment="c")
        free.add_metabolites({newm: 1})
        r = model.reactions.R
        r += free  # n_c joins the model and keeps listing the free reaction
    elif name == "outside-reference-added":
        r = model.reactions.R
        model.remove_reactions([r])
        rename_genes(model, {"g1": "gn1"})
    ident = {"probe": name}
    if name == "removed-variable-still-used":
        ident["removed_used_variables"] = [model.reactions.R.forward_variable.name]
    H = ops.Hist(model, gen.rng_for("C03probe", name))
    model._cv_armed = True
    tap.results.clear()
    trace = [{"op": "ctx.enter", "args": {"depth": 1}, "raised": None}]
    outcome = "normal"
    try:
        with model:
            if name == "glpk_exact-copy":
                model.remove_reactions([model.reactions.R])
                kinds.append("model.remove_reactions")
            elif name == "outside-reference-dropped":
                rename_genes(model, {"g2": "gn2"})
                kinds.append("manipulation.rename_genes")
            elif name == "removed-variable-still-used":
                # what tests/test_util/test_solver.py::test_add_remove_in_context does with v.PGM
                model.remove_cons_vars([model.reactions.R.forward_variable])
                kinds.append("model.remove_cons_vars(used-variable)")
            else:
                model.add_reactions([r])
                kinds.append("model.add_reactions")
            trace.append({"op": kinds[-1], "args": None, "raised": None})
    except Exception as e:
        outcome = "op-raised:" + type(e).__name__
    results = list(tap.results)
    for _ in results:
        acc.ev()
    acc.count("probes_run")
    judge_exits(acc, tap, H, results, kinds, trace, ident, outcome, None, 1, None)
    model._cv_armed = False


def run_shard(desc, acc):
    if desc.get("kind") == "probes":
        for pr in desc["probes"]:
            run_probe(pr, acc)
        return
    first = desc.get("first", 0)
    for case in range(first, first + desc["cases"]):
        run_case(desc["base"], case, acc)
        acc.checkpoint()


def replay(w, acc):
    run_case(w["base"], w["case"], acc)
