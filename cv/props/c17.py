"""C17 - loopless methods remove cycles without changing what matters.

Oracle for loopless_solution: conditions on (start vector v, returned v') checked
directly, plus *irreducibility* by one exact LP (largest conformal internal cycle that
could still be removed from v' without violating the conditions).  Oracle for
add_loopless: exact optimum over all loop-free distributions (union over all
thermodynamically feasible sign patterns of the internal-cycle reactions) and a
support LP showing the reported solution carries no conformal internal cycle.
"""
import math
import warnings

from cv import gen, oracles
from cv.acc import h
from cv.exactlp import LP, fr

PROPERTY = "C17"
LEVEL = "exploration"
RULE = (
    "case = one loopless_solution call (start vector: internal FBA vertex, pFBA, or a "
    "harness-built optimal vector with extra loop flux passed as fluxes=) or one add_loopless "
    "+ optimize on a generated model with internal cycles of length 2-4 under every "
    "reversibility pattern, touching or not touching the objective, max and min objectives.  "
    "Non-trivial when the start vector contains a removable cycle (loopless_solution) / the "
    "loop-free optimum differs from the plain one or cycles exist (add_loopless); distinct by "
    "(model hash, start kind)."
)
ASSUMPTIONS = [
    "a removable cycle is reported above 1e-6 total flux; fluxes below 1e-9 are zero",
    "add_loopless: 'zero flux' allowance max_bound x integrality tolerance x 10 (big-M leakage); <= 6 cycle reactions, finite bounds",
]
REACH = [
    "flux_analysis/loopless.py:loopless_solution",
    "flux_analysis/loopless.py:_add_cycle_free",
    "flux_analysis/loopless.py:add_loopless",
]
TOL = 1e-6


def minimums(tier):
    return {
        "evaluations": 400,
        "distinct_nontrivial": 80,
        "counters": {"loopless_solution_calls": 1000, "irreducibility_lps": 1000, "starts_with_removable_cycle": 200, "add_loopless_calls": 250, "min_objectives": 100},
        "sets": {"start_kinds": 3},
    }


def plan(tier, seed):
    n = 16 if tier == "quick" else 64
    per = 120 if tier == "quick" else 800
    return [{"cases": per, "base": seed * 1000003 + k} for k in range(n)]


def removable_cycle(model, cyc, vprime, cfloat, zero=1e-9):
    """max sum s_i w_i  s.t. S_int w = 0, 0 <= s_i w_i <= |v'_i|, w_i = 0 where v'_i = 0,
    c.w = 0, lb <= v' - w <= ub.  Returns the optimum as float."""
    lp = LP()
    col = {}
    obj = {}
    for rid in cyc.internal:
        x = float(vprime[rid])
        r = model.reactions.get_by_id(rid)
        if abs(x) <= zero:
            continue
        # w range from sign/magnitude and from bounds:  lb <= x - w <= ub
        lo_w, hi_w = (0.0, x) if x > 0 else (x, 0.0)
        if math.isfinite(r.upper_bound):
            lo_w = max(lo_w, x - r.upper_bound)
        if math.isfinite(r.lower_bound):
            hi_w = min(hi_w, x - r.lower_bound)
        if lo_w > hi_w:
            lo_w = hi_w = 0.0  # x itself slightly outside bounds (noise)
        lo_w, hi_w = min(lo_w, 0.0), max(hi_w, 0.0)
        col[rid] = lp.add_var(fr(lo_w), fr(hi_w))
        obj[col[rid]] = 1 if x > 0 else -1
    if not col:
        return 0.0
    for met in model.metabolites:
        co = {}
        for r in met.reactions:
            if r.id in col:
                co[col[r.id]] = r.metabolites[met]
        if co:
            lp.add_row(co, 0, 0)
    crow = {col[rid]: k for rid, k in cfloat.items() if rid in col and k}
    if crow:
        lp.add_row(crow, 0, 0)
    res = lp.solve(obj, "max")
    return float(res.obj) if res.status == "optimal" else float("inf")


def conformal_cycle(model, cyc, v, zero):
    """Largest normalised conformal internal cycle in the support of v (0 if none)."""
    lp = LP()
    col, obj = {}, {}
    for rid in cyc.internal:
        x = float(v[rid])
        if abs(x) <= zero:
            continue
        col[rid] = lp.add_var(0, 1) if x > 0 else lp.add_var(-1, 0)
        obj[col[rid]] = 1 if x > 0 else -1
    if not col:
        return 0.0
    for met in model.metabolites:
        co = {col[r.id]: r.metabolites[met] for r in met.reactions if r.id in col}
        if co:
            lp.add_row(co, 0, 0)
    res = lp.solve(obj, "max")
    return float(res.obj)


def run_case(base, case, acc, rec_override=None):
    import cobra
    import pandas as pd
    from cobra.flux_analysis import loopless_solution, pfba
    from cobra.flux_analysis.loopless import add_loopless
    from cobra.util.solver import linear_reaction_coefficients

    rng = gen.rng_for("C17", base, case)
    rec = gen.network(rng, genes=0, finite=True, size=rng.randint(1, 2), allow_forced=rng.random() < 0.4, p_cycle=0.95)
    if rng.random() < 0.35:
        rec["direction"] = "min"
    if rng.random() < 0.25:
        # asymmetric bounds: the largest bound of the whole model is a *lower* bound, and
        # the objective pulls that reaction backwards beyond every upper bound
        cand = [r for r in rec["rxns"] if not isinstance(r["lb"], str) and r["lb"] < 0 and len(r["stoich"]) >= 2]
        if cand:
            r = rng.choice(cand)
            top = max(abs(x["ub"]) for x in rec["rxns"] if not isinstance(x["ub"], str))
            r["lb"] = -3 * max(top, 10)
            for e in rec["rxns"]:
                if len(e["stoich"]) == 1 and not isinstance(e["lb"], str):  # let the boundary supply it
                    e["lb"] = min(e["lb"], -3 * max(top, 10)) if e["lb"] < 0 else e["lb"]
            for x in rec["rxns"]:
                x["obj"] = 0
            r["obj"] = 1
            rec["direction"] = "min"
            acc.count("models_whose_largest_bound_is_a_lower_bound")
    if rec_override is not None:
        rec = rec_override
    lab, res = gen.classify(rec)
    if lab["status"] != "optimal":
        acc.count("skipped_no_optimum")
        return
    with warnings.catch_warnings():
        warnings.simplefilter("ignore")
        model = gen.build(rec)
    rids = [r.id for r in model.reactions]
    cyc = oracles.Cycles(model)
    if not cyc.N:
        acc.count("models_without_cycles")
    cf = {r.id: k for r, k in linear_reaction_coefficients(model).items()}
    ident0 = {"base": base, "case": case, "direction": rec["direction"], "optimum": float(res.obj), "cycle_reactions": cyc.cycle_rxns}
    if rec["direction"] == "min":
        acc.count("min_objectives")
    sig = gen.recipe_sig(rec)
    wrec = lambda: rec if len(str(rec)) < 6000 else None
    fba = model.optimize()
    starts = {"fba-internal": None}
    try:
        starts["pfba"] = {rid: float(x) for rid, x in pfba(model).fluxes.items()}
    except Exception:
        pass
    # cycles that leave the objective untouched (the start vector must stay optimal:
    # "the optimum has remained the same", docstring)
    neutral = [n for n in cyc.N if sum(fr(cf.get(rid, 0.0)) * n[k] for k, rid in enumerate(cyc.internal)) == 0]
    if neutral:
        nvec = rng.choice(neutral)
        base_v = {rid: float(fba.fluxes[rid]) for rid in rids}
        for sgn in (1, -1):
            alpha = None
            for k, rid in enumerate(cyc.internal):
                nv = sgn * float(nvec[k])
                if nv == 0:
                    continue
                r = model.reactions.get_by_id(rid)
                room_ = (r.upper_bound - base_v[rid]) / nv if nv > 0 else (r.lower_bound - base_v[rid]) / nv
                alpha = room_ if alpha is None else min(alpha, room_)
            if alpha is not None and alpha > 1e-3 and math.isfinite(alpha):
                v = dict(base_v)
                for k, rid in enumerate(cyc.internal):
                    v[rid] += 0.5 * alpha * sgn * float(nvec[k])
                starts["loopful"] = v
                break
    for kind in rng.sample(sorted(starts), min(2, len(starts))):
        acc.add("start_kinds", kind)
        ident = dict(ident0, start=kind)
        acc.journal(dict(ident, about_to_run="loopless_solution"))
        captured = {}
        if starts[kind] is None:
            orig = cobra.Model.optimize

            def tap(self, *a, **k):
                s = orig(self, *a, **k)
                captured.setdefault("first", s)
                return s

            cobra.Model.optimize = tap
        try:
            with warnings.catch_warnings():
                warnings.simplefilter("ignore")
                sol = loopless_solution(model, fluxes=starts[kind])
        except Exception as e:
            acc.ev()
            acc.violation(f"C17/loopless_solution/raised/{type(e).__name__}", f"loopless_solution raised {type(e).__name__}: {str(e)[:160]}", dict(ident, start_recipe=wrec()))
            continue
        finally:
            if starts[kind] is None:
                cobra.Model.optimize = orig
        acc.ev()
        acc.count("loopless_solution_calls")
        if starts[kind] is None:
            if "first" not in captured:
                acc.count("start_not_captured")
                continue
            v0 = {rid: float(captured["first"].fluxes[rid]) for rid in rids}
        else:
            v0 = starts[kind]
        w = lambda **k: dict(ident, start_fluxes=v0, returned={rid: float(sol.fluxes[rid]) for rid in rids} if sol is not None and sol.status == "optimal" else None, start_recipe=wrec(), **k)
        if sol is None or sol.status != "optimal":
            acc.violation("C17/loopless_solution/no-solution", f"loopless_solution returned status {getattr(sol, 'status', None)} for a feasible start vector", w())
            continue
        v1 = sol.fluxes
        had = removable_cycle(model, cyc, v0, cf) > TOL
        if had:
            acc.count("starts_with_removable_cycle")
            acc.nontrivial(sig, kind)
        from cv.props.c09 import feasibility_problems

        probs = feasibility_problems(model, v1)
        if probs:
            acc.violation("C17/loopless_solution/infeasible", f"returned distribution is not feasible: {probs[0]}", w(problems=probs[:3]))
            continue
        c0 = sum(k * v0[rid] for rid, k in cf.items())
        c1 = sum(k * v1[rid] for rid, k in cf.items())
        scale = max(1.0, abs(c0))
        if abs(c1 - c0) > TOL * scale:
            key = "C17/loopless_solution/objective-changed"
            if rec["direction"] == "min":
                key += "/min-objective"
            acc.violation(key, f"objective of the returned fluxes {c1}, of the start vector {c0}", w())
            continue
        if abs(sol.objective_value - c0) > TOL * scale:
            acc.violation("C17/loopless_solution/objective_value-field", f"Solution.objective_value {sol.objective_value}, objective of the start vector {c0}", w())
            continue
        bad = None
        for r in model.reactions:
            a, b = v0[r.id], v1[r.id]
            sc = max(1.0, abs(a))
            if r.boundary:
                if abs(a - b) > TOL * sc:
                    bad = ("boundary-flux-changed", r.id, a, b)
                    break
            else:
                if (a > 1e-9 and b < -TOL) or (a < -1e-9 and b > TOL) or (abs(a) <= 1e-9 and abs(b) > TOL):
                    bad = ("direction-reversed", r.id, a, b)
                    break
                if abs(b) > abs(a) + TOL * sc:
                    bad = ("magnitude-grew", r.id, a, b)
                    break
        if bad:
            acc.violation(f"C17/loopless_solution/{bad[0]}", f"{bad[1]}: start {bad[2]} -> returned {bad[3]}", w())
            continue
        acc.count("irreducibility_lps")
        left = removable_cycle(model, cyc, {rid: float(v1[rid]) for rid in rids}, cf)
        if left > 1e-5 * max(1.0, max(abs(x) for x in v0.values())):
            acc.violation("C17/loopless_solution/removable-cycle-left", f"an internal cycle of total flux {left} can still be removed from the returned distribution without violating the conditions", w(removable=left))
            continue

    # ------------------------------------------------------------ add_loopless
    if len(cyc.cycle_rxns) <= 6 and (rng.random() < 0.6 or rec_override is not None):
        bounds = {r.id: r.bounds for r in model.reactions}
        orients = cyc.feasible_orientations(bounds, limit=6)
        P = oracles.Problem(model)
        st, best = oracles.loopless_opt(P, cyc, orients)
        ident = dict(ident0, method="add_loopless", exact_status=st, exact=None if best is None else float(best))
        acc.journal(dict(ident, about_to_run="add_loopless"))
        try:
            with model:
                with warnings.catch_warnings():
                    warnings.simplefilter("ignore")
                    add_loopless(model)
                    sol = model.optimize()
        except Exception as e:
            acc.ev()
            acc.violation(f"C17/add_loopless/raised/{type(e).__name__}", f"add_loopless/optimize raised {type(e).__name__}: {str(e)[:160]}", dict(ident, start_recipe=wrec()))
            return
        acc.ev()
        acc.count("add_loopless_calls")
        w = lambda **k: dict(ident, returned={rid: float(sol.fluxes[rid]) for rid in rids} if sol.status == "optimal" else None, start_recipe=wrec(), **k)
        if st != "optimal":
            if sol.status == "optimal":
                acc.violation("C17/add_loopless/optimal-although-no-loop-free-optimum", f"status optimal ({sol.objective_value}) but no loop-free distribution exists ({st})", w())
            return
        if sol.status != "optimal":
            # same mechanism check as below: with every energy variable capped by the largest
            # flux bound M there may be no admissible sign pattern left at all
            M = max(max(abs(b) for b in r.bounds) for r in model.reactions)
            st_c, _best_c = oracles.loopless_opt(P, cyc, cyc.feasible_orientations(bounds, limit=6, gmax=M))
            if st_c == "infeasible" and sol.status == "infeasible":
                acc.violation("C17/add_loopless/energy-variables-capped-by-largest-flux-bound", f"status infeasible after add_loopless, the exact loop-free optimum is {float(best)}; with |G_i| <= M = {M} no sign pattern is admissible (exactly infeasible)", w(M=M))
                return
            acc.violation("C17/add_loopless/no-optimum-although-loop-free-optimum-exists", f"status {sol.status}; the loop-free optimum is {float(best)}", w())
            return
        if abs(sol.objective_value - float(best)) > 1e-5 * max(1.0, abs(float(best))):
            # mechanism check: the implemented MILP bounds every energy variable by the
            # largest flux bound M (1 <= |G_i| <= M); with coefficient ratios in the
            # internal cycles beyond M that excludes sign patterns that are
            # thermodynamically fine.  Proved by re-solving exactly with that cap.
            M = max(max(abs(b) for b in r.bounds) for r in model.reactions)
            st_c, best_c = oracles.loopless_opt(P, cyc, cyc.feasible_orientations(bounds, limit=6, gmax=M))
            if st_c == "optimal" and abs(sol.objective_value - float(best_c)) <= 1e-5 * max(1.0, abs(float(best_c))):
                worse = sol.objective_value < float(best) if model.objective_direction == "max" else sol.objective_value > float(best)
                if worse:
                    acc.violation("C17/add_loopless/energy-variables-capped-by-largest-flux-bound", f"optimum after add_loopless {sol.objective_value}, exact loop-free optimum {float(best)}; with |G_i| <= M = {M} the exact optimum is {float(best_c)}", w(M=M))
                    return
            acc.violation("C17/add_loopless/not-the-loop-free-optimum", f"optimum after add_loopless {sol.objective_value}, exact loop-free optimum {float(best)} (plain optimum {float(res.obj)})", w())
            return
        maxb = max(max(abs(b) for b in r.bounds) for r in model.reactions)
        zero = maxb * (model.tolerance or 1e-7) * 10
        cycflux = conformal_cycle(model, cyc, {rid: float(sol.fluxes[rid]) for rid in rids}, zero)
        if cycflux > 1e-6:
            acc.violation("C17/add_loopless/reported-solution-contains-cycle", "the optimal solution reported after add_loopless carries a conformal internal cycle", w(zero_threshold=zero))
            return
        if cyc.N:
            acc.nontrivial(sig, "add_loopless", best != res.obj)
    if case < 2:
        acc.sample({"n_reactions": len(rids), "cycle_reactions": cyc.cycle_rxns, "direction": rec["direction"], "starts": sorted(starts)})


def run_probe(pr, acc):
    run_case(-1, 0, acc, rec_override=pr["recipe"])
    acc.count("probes_run")


def run_shard(desc, acc):
    if desc.get("kind") == "probes":
        for pr in desc["probes"]:
            run_probe(pr, acc)
        return
    first = desc.get("first", 0)
    for case in range(first, first + desc["cases"]):
        run_case(desc["base"], case, acc)
        acc.checkpoint()


def replay(w, acc):
    run_case(w["base"], w["case"], acc)
