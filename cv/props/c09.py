"""C09 - pFBA, linear MOMA and ROOM solve their documented secondary problems optimally.

Oracle: exact rational LPs of the documented formulations (pFBA: minimal total flux
under the objective requirement; linear MOMA: minimal summed absolute distance to the
reference; ROOM: minimal number of fluxes outside the tolerance band by exhaustive
subset enumeration, linear ROOM: the documented relaxation).
"""
import math
import sys
import warnings

from cv import gen, oracles
from cv.acc import h
from cv.exactlp import fr

PROPERTY = "C09"
LEVEL = "exploration"
RULE = (
    "case = one pfba / moma(linear) / room call on a feasible generated model (finite bounds "
    "for ROOM) with the objective taken from the model or given as objective=, "
    "fraction_of_optimum in {1,0.75,0.3,0}, reactions= subsets, references given (FBA vertex, "
    "pFBA, a harness-built optimal vector with extra loop flux) or defaulted, in wild-type and "
    "knock-out states.  Non-trivial when the secondary optimum differs from the FBA vertex's "
    "value (pFBA) / the knock-out changes the reference (MOMA, ROOM); distinct by (model hash, "
    "method, arguments)."
    " A quarter of the models has capacities of 2 500-8 000 (fluxes beyond the configured default bounds); 40 % of the references are handed over in another index order."  # third-session additions
)
ASSUMPTIONS = [
    "totals compared with 1e-6 relative; ROOM band membership judged with 1e-5 slack (big-M x integrality tolerance)",
    "ROOM exact only for models where the minimal count is <= 4 (subset enumeration), else counted as undecided",
    "references are optimal for the model before knock-out, as the quantifier says",
]
REACH = [
    "flux_analysis/parsimonious.py:pfba",
    "flux_analysis/parsimonious.py:add_pfba",
    "flux_analysis/moma.py:add_moma",
    "flux_analysis/room.py:add_room",
    "util/solver.py:fix_objective_as_constraint",
    "util/solver.py:add_absolute_expression",
]
TOL = 1e-6


def minimums(tier):
    return {
        "evaluations": 500,
        "distinct_nontrivial": 100,
        "counters": {"pfba_calls": 150, "moma_calls": 100, "room_calls": 40, "room_linear_calls": 40, "knockout_states": 80},
        "sets": {"fractions": 3},
    }


def plan(tier, seed):
    n = 16 if tier == "quick" else 64
    per = 22 if tier == "quick" else 150
    return [{"cases": per, "base": seed * 1000003 + k} for k in range(n)]


def feasibility_problems(model, fluxes, tol=1e-6):
    out = []
    for r in model.reactions:
        x = fluxes[r.id]
        if not (r.lower_bound - tol * max(1, abs(r.lower_bound)) <= x <= r.upper_bound + tol * max(1, abs(r.upper_bound))):
            out.append(f"flux of {r.id} = {x} outside {r.bounds}")
    for m in model.metabolites:
        s = sum(r.metabolites[m] * fluxes[r.id] for r in m.reactions)
        norm = max(1.0, sum(abs(r.metabolites[m] * fluxes[r.id]) for r in m.reactions))
        if abs(s) > tol * norm:
            out.append(f"steady state of {m.id} violated by {s}")
    return out


def close(x, q, tol=TOL):
    q = float(q)
    return abs(x - q) <= tol * max(1.0, abs(q))


def run_case(base, case, acc):
    import cobra
    import pandas as pd
    from cobra.flux_analysis import moma, pfba, room

    rng = gen.rng_for("C09", base, case)
    wide = rng.random() < 0.25  # capacities (and therefore fluxes) beyond the configured default bounds of +-1000
    rec = gen.network(rng, genes=0, finite=True, size=rng.randint(1, 2), allow_forced=rng.random() < 0.5, big_choices=[4000, 2500, 4000, 2500, 8000] if wide else None)
    if wide:
        acc.count("models_with_capacities_beyond_the_default_bounds")
    lab, res = gen.classify(rec)
    if lab["status"] != "optimal":
        acc.count("skipped_no_optimum")
        return
    z = res.obj
    if (rec["direction"] == "max" and z < 0) or (rec["direction"] == "min" and z > 0):
        acc.count("skipped_optimum_of_other_sign")
        return
    with warnings.catch_warnings():
        warnings.simplefilter("ignore")
        model = gen.build(rec)
    rids = [r.id for r in model.reactions]
    ident0 = {"base": base, "case": case, "direction": rec["direction"], "optimum": float(z)}
    sig = gen.recipe_sig(rec)
    wrec = lambda: rec if len(str(rec)) < 6000 else None

    # ------------------------------------------------------------------ pFBA
    for call in range(2):
        f = rng.choice([1.0, 1.0, 0.75, 0.3, 0.0])
        acc.add("fractions", str(f))
        use_obj = rng.random() < 0.3
        sub = rng.random() < 0.3
        kw = {}
        P = oracles.Problem(model)
        c, direction = P.c, P.direction
        if use_obj:
            r = rng.choice(list(model.reactions))
            kw["objective"] = {r: 1.0}
            c = {P.col[r.id]: 1}
            zz = P.lp.solve(c, direction)
            if zz.status != "optimal" or (direction == "max" and zz.obj < 0) or (direction == "min" and zz.obj > 0):
                continue
        if sub:
            sel = rng.sample(list(model.reactions), rng.randint(1, len(rids)))
            kw["reactions"] = sel if rng.random() < 0.5 else [x.id for x in sel]
        ident = dict(ident0, method="pfba", fraction=f, objective=[r.id] if use_obj else "model", subset=sub)
        acc.journal(dict(ident, about_to_run="pfba"))
        ex = oracles.pfba_exact(P, f, c, direction)
        try:
            with warnings.catch_warnings():
                warnings.simplefilter("ignore")
                sol = pfba(model, fraction_of_optimum=f, **kw)
        except Exception as e:
            acc.ev()
            acc.violation(f"C09/pfba/raised/{type(e).__name__}", f"pfba raised {type(e).__name__}: {str(e)[:200]}", dict(ident, start_recipe=wrec()))
            continue
        acc.ev()
        acc.count("pfba_calls")
        if ex is None:
            acc.harness_error("pfba oracle found no optimum on a feasible model")
            continue
        T, zopt = ex
        w = lambda **k: dict(ident, **k, start_recipe=wrec())
        if not close(sol.objective_value, T):
            acc.violation("C09/pfba/objective-value-not-minimal-total-flux", f"pfba objective_value {sol.objective_value}, exact minimal total flux {float(T)}", w(exact=float(T)))
            continue
        if sub:
            want = [x.id for x in sel]
            if list(sol.fluxes.index) != want:
                acc.violation("C09/pfba/reactions-subset-index", f"fluxes index {list(sol.fluxes.index)[:5]} != requested {want[:5]}", w())
            continue
        probs = feasibility_problems(model, sol.fluxes)
        if probs:
            acc.violation("C09/pfba/infeasible-solution", f"pfba solution is not a feasible flux distribution: {probs[0]}", w(problems=probs[:4]))
            continue
        tot = sum(abs(sol.fluxes[r]) for r in rids)
        if not close(tot, T):
            acc.violation("C09/pfba/total-flux-not-minimal", f"sum |v| = {tot}, exact minimum {float(T)}", w(exact=float(T)))
            continue
        cv = sum(float(k) * sol.fluxes[rid] for rid in rids for j, k in c.items() if P.col[rid] == j)
        req = f * float(zopt)
        if (direction == "max" and cv < req - TOL * max(1, abs(req))) or (direction == "min" and cv > req + TOL * max(1, abs(req))):
            acc.violation("C09/pfba/objective-requirement-violated", f"objective {cv} at the pFBA solution, required {'>=' if direction=='max' else '<='} {req}", w())
            continue
        fba_tot = None
        try:
            fba_tot = sum(abs(x) for x in model.optimize().fluxes)
        except Exception:
            pass
        if fba_tot is not None and abs(fba_tot - float(T)) > 1e-6:
            acc.nontrivial(sig, "pfba", f, use_obj)

    # ------------------------------------------------- references for MOMA / ROOM
    try:
        fba_ref = model.optimize()
        pfba_ref = pfba(model)
    except Exception as e:
        acc.harness_error("reference", e)
        return
    refs = {"fba": fba_ref, "pfba": pfba_ref}
    # harness-built optimal vector with extra loop flux
    cyc = oracles.Cycles(model)
    if cyc.N:
        nvec = cyc.N[0]
        base_v = {rid: float(fba_ref.fluxes[rid]) for rid in rids}
        # largest alpha keeping bounds
        alpha = None
        for k, rid in enumerate(cyc.internal):
            nv = float(nvec[k])
            if nv == 0:
                continue
            r = model.reactions.get_by_id(rid)
            room_ = (r.upper_bound - base_v[rid]) / nv if nv > 0 else (r.lower_bound - base_v[rid]) / nv
            alpha = room_ if alpha is None else min(alpha, room_)
        if alpha is not None and alpha > 1e-6 and math.isfinite(alpha):
            a = alpha / 2
            v = dict(base_v)
            for k, rid in enumerate(cyc.internal):
                v[rid] += a * float(nvec[k])
            cz = sum(model.reactions.get_by_id(rid).objective_coefficient * v[rid] for rid in rids)
            loopy = cobra.Solution(objective_value=cz, status="optimal", fluxes=pd.Series(v, name="fluxes").reindex(rids))
            if not feasibility_problems(model, loopy.fluxes, 1e-9):
                refs["loopful"] = loopy

    # ------------------------------------------------------------- knock-out states
    for call in range(3):
        ko = rng.sample(rids, rng.choice([0, 1, 1, 2]))
        refname = rng.choice(sorted(refs))
        ref = refs[refname]
        if rng.random() < 0.4:
            ref = gen.reordered_solution(ref, rng)
            refname += "/reordered"
            acc.count("references_in_another_index_order")
        method = rng.choice(["moma", "moma", "room", "room-linear"])
        default_ref = rng.random() < 0.15 and not ko
        ident = dict(ident0, method=method, knocked=ko, reference="default" if default_ref else refname)
        acc.journal(dict(ident, about_to_run=method))
        with model:
            for rid in ko:
                model.reactions.get_by_id(rid).knock_out()
            if ko:
                acc.count("knockout_states")
            P = oracles.Problem(model)
            w = lambda **k: dict(ident, **k, start_recipe=wrec())
            captured = {}
            if default_ref:
                import importlib

                mm = importlib.import_module("cobra.flux_analysis.moma")
                rm = importlib.import_module("cobra.flux_analysis.room")
                mm, rm = sys.modules["cobra.flux_analysis.moma"], sys.modules["cobra.flux_analysis.room"]

                orig_pfba = mm.pfba

                def tap(*a, **k):
                    s = orig_pfba(*a, **k)
                    captured["ref"] = s
                    return s

                mm.pfba = rm.pfba = tap
            try:
                with warnings.catch_warnings():
                    warnings.simplefilter("ignore")
                    if method == "moma":
                        sol = moma(model, solution=None if default_ref else ref, linear=True)
                    else:
                        delta, eps = rng.choice([(0.03, 0.001), (0.1, 0.01), (0.0, 0.001)])
                        ident["delta"], ident["epsilon"] = delta, eps
                        sol = room(model, solution=None if default_ref else ref, linear=(method == "room-linear"), delta=delta, epsilon=eps)
            except Exception as e:
                acc.ev()
                feas = P.lp.solve({}, "min").status == "optimal"
                if feas:
                    acc.violation(f"C09/{method}/raised/{type(e).__name__}", f"{method} raised {type(e).__name__}: {str(e)[:160]} although the knocked-out model is feasible", w())
                continue
            finally:
                if default_ref:
                    mm.pfba = rm.pfba = orig_pfba
            if default_ref:
                if "ref" not in captured:
                    acc.count("default_reference_not_captured")
                    continue
                ref = captured["ref"]
            refd = {rid: float(ref.fluxes[rid]) for rid in rids}
            # the same reference with solver noise removed (1e-9 grid): if the exact
            # answer depends on that noise the input is ill-conditioned -> borderline
            snapped = {rid: round(x * 1e9) / 1e9 for rid, x in refd.items()}
            ident["reference_fluxes"] = refd
            ident["reference_objective_value"] = float(ref.objective_value)
            try:
                ident["returned_fluxes"] = {rid: float(sol.fluxes[rid]) for rid in rids}
                ident["returned_objective_value"] = float(sol.objective_value)
            except Exception:
                pass
            acc.ev()
            feas = P.lp.solve({}, "min").status == "optimal"
            if not feas:
                if sol.status == "optimal":
                    acc.violation(f"C09/{method}/optimal-although-infeasible", f"{method} reports optimal but the knocked-out model is infeasible", w())
                continue
            if method == "moma":
                acc.count("moma_calls")
                m = oracles.moma_exact(P, refd)
                D = m[0]
                if abs(float(D) - float(oracles.moma_exact(P, snapped)[0])) > 1e-6:
                    acc.count("borderline_skipped_reference_noise_decides")
                    continue
                if sol.status != "optimal":
                    acc.violation("C09/moma/not-optimal-although-feasible", f"moma status {sol.status}", w())
                    continue
                probs = feasibility_problems(model, sol.fluxes)
                if probs:
                    acc.violation("C09/moma/infeasible-solution", f"moma solution is not feasible in the given model: {probs[0]}", w(problems=probs[:4]))
                    continue
                dist = sum(abs(sol.fluxes[rid] - refd[rid]) for rid in rids)
                if not close(dist, D) and dist > float(D):
                    acc.violation("C09/moma/distance-not-minimal", f"sum |v - w| = {dist}, exact minimum {float(D)}", w(exact=float(D)))
                    continue
                if D != 0:
                    acc.nontrivial(sig, "moma", tuple(ko), refname)
            elif method == "room-linear":
                acc.count("room_linear_calls")
                q = oracles.room_linear_exact(P, refd)
                q_s = oracles.room_linear_exact(P, snapped)
                if q is None or q == "infeasible" or q_s is None or q_s == "infeasible":
                    acc.count("room_linear_undecided")
                    continue
                tiny = False
                for r_ in model.reactions:
                    for bnd in r_.bounds:
                        dlt = abs(bnd - refd[r_.id])
                        if 0 < dlt < 1e-7 * max(1.0, abs(bnd)):
                            tiny = True
                if tiny:
                    # big-M coefficient (bound - w) of order 1e-14: GLPK's simplex without
                    # presolve returns non-optimal "optimal" values on such LPs (its presolved
                    # and exact runs agree with the oracle) - ill-conditioned input
                    acc.count("borderline_skipped_tiny_bigM_coefficient")
                    continue
                if abs(float(q) - float(q_s)) > 1e-6:
                    # zero-width band of the linear variant x 1e-15 noise in the reference
                    acc.count("borderline_skipped_reference_noise_decides")
                    continue
                if sol.status != "optimal":
                    acc.violation("C09/room-linear/not-optimal-although-feasible", f"linear room status {sol.status}; the documented relaxation has optimum {float(q)}", w(exact=float(q)))
                    continue
                probs = feasibility_problems(model, sol.fluxes)
                if probs:
                    acc.violation("C09/room-linear/infeasible-solution", f"room solution not feasible: {probs[0]}", w())
                    continue
                if not close(sol.objective_value, q, 1e-5):
                    key = "C09/room-linear/objective-not-the-documented-optimum"
                    if sol.objective_value > float(q) and _old_objective_cap_binding(model, P, ref, refd, q, linear=True):
                        key = "C09/room/undocumented-cap-on-old-objective-binding"
                    acc.violation(key, f"linear ROOM objective {sol.objective_value}, exact optimum of the documented relaxation {float(q)}", w(exact=float(q)))
                    continue
                if q != 0:
                    acc.nontrivial(sig, "room-linear", tuple(ko), refname)
            else:
                acc.count("room_calls")
                q = oracles.room_exact(P, refd, ident["delta"], ident["epsilon"])
                if q is None or q == "infeasible":
                    acc.count("room_undecided")
                    continue
                if q != oracles.room_exact(P, snapped, ident["delta"], ident["epsilon"]):
                    acc.count("borderline_skipped_reference_noise_decides")
                    continue
                if sol.status != "optimal":
                    key = "C09/room/not-optimal-although-feasible"
                    if _old_objective_cap_binding(model, P, ref, refd, q, linear=False, delta=ident["delta"], eps=ident["epsilon"]):
                        key = "C09/room/undocumented-cap-on-old-objective-binding"
                    acc.violation(key, f"room status {sol.status}; the documented problem has optimum {q}", w(exact=q))
                    continue
                probs = feasibility_problems(model, sol.fluxes, 1e-5)
                if probs:
                    acc.violation("C09/room/infeasible-solution", f"room solution not feasible: {probs[0]}", w())
                    continue
                bands = oracles.room_bands(refd, ident["delta"], ident["epsilon"])
                outside = [rid for rid in rids if not (float(bands[rid][0]) - 1e-5 <= sol.fluxes[rid] <= float(bands[rid][1]) + 1e-5)]
                if len(outside) != q:
                    key = "C09/room/number-outside-band-not-minimal" if len(outside) > q else "C09/room/fewer-outside-than-exact-minimum"
                    if len(outside) > q and _old_objective_cap_binding(model, P, ref, refd, q, linear=False, delta=ident["delta"], eps=ident["epsilon"]):
                        key = "C09/room/undocumented-cap-on-old-objective-binding"
                    acc.violation(key, f"ROOM solution has {len(outside)} fluxes outside the band, the minimum is {q}", w(exact=q, outside=outside))
                    continue
                if q != 0:
                    acc.nontrivial(sig, "room", tuple(ko), refname)
    if case < 2:
        acc.sample({"n_reactions": len(rids), "optimum": float(z), "direction": rec["direction"], "references": sorted(refs)})


def _old_objective_cap_binding(model, P, ref, refd, q, linear, delta=0.0, eps=0.0):
    """Proves the mechanism of the ROOM finding: add_room also imposes
    old objective <= solution.objective_value, which the documented formulation does not
    contain.  True iff re-solving the documented problem *with* that cap exactly gives a
    worse optimum (or infeasibility) than without."""
    P2 = oracles.Problem(model)
    if not P2.c:
        return False
    P2.lp.add_row(P2.c, None, fr(float(ref.objective_value)), "_cap")
    if linear:
        q2 = oracles.room_linear_exact(P2, refd)
    else:
        q2 = oracles.room_exact(P2, refd, delta, eps)
    if q2 == "infeasible":
        return True
    if q2 is None:
        return False
    return q2 > q


def run_shard(desc, acc):
    first = desc.get("first", 0)
    for case in range(first, first + desc["cases"]):
        run_case(desc["base"], case, acc)
        acc.checkpoint()


CRASH_IS_VIOLATION = False


def replay(w, acc):
    run_case(w["base"], w["case"], acc)
