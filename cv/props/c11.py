"""C11 - JSON, YAML, dict and pickle round trips return the same model.

Oracle: the loaded model is described (identifiers, stoichiometry, bounds incl.
infinities, objective coefficients and direction, gene rules as truth tables,
compartments, names, formulas, charges, subsystems, notes, annotations) and compared
exactly with the description of the original; the raw GLPK problems are compared by
name; the second round trip must change nothing; loading must not raise.
"""
import io
import math
import copy
import os
import pickle
import tempfile
import warnings

from cv import gen, ioequiv, observe
from cv.acc import h

PROPERTY = "C11"
LEVEL = "exploration"
RULE = (
    "case = one round trip of a generated model (awkward ids: punctuation, leading digits, "
    "non-ASCII, SBML-prefix-like, escape-like; bounds below/above the configured defaults, "
    "infinite, fixed; min/max and weighted objectives; nested rules over awkward gene ids; names, "
    "formulas, charges incl. 0, notes, annotations, subsystems, compartments) through one channel "
    "(json string/path/handle, pretty on/off; yaml string/path/handle; dict; pickle protocols), "
    "sort on/off, under Configuration().bounds in {default, (-50,50), (0,10), (-inf,inf)}.  "
    "Non-trivial when the model has >= 1 non-default attribute class; distinct by (model hash, "
    "channel, sort, configured bounds)."
    " A third of the models carries null, nested, boolean and numeric values in notes / annotations; model_from_dict must leave its argument unchanged."  # third-session additions
)
ASSUMPTIONS = [
    "floats must come back bit-identical (these formats carry full precision)",
    "groups are compared for pickle only (the dict formats do not promise them)",
]
REACH = [
    "io/dict.py:model_to_dict",
    "io/dict.py:model_from_dict",
    "io/dict.py:_reaction_from_dict",
    "io/json.py:to_json",
    "io/json.py:load_json_model",
    "io/yaml.py:to_yaml",
    "io/yaml.py:load_yaml_model",
    "core/model.py:Model.__setstate__",
    "core/reaction.py:Reaction.__setstate__",
]
CHANNELS = ["json-string", "json-string-pretty", "json-path", "json-handle", "yaml-string", "yaml-path", "yaml-handle", "dict", "pickle-2", "pickle-4", "pickle-5"]


def minimums(tier):
    return {
        "evaluations": 2000,
        "distinct_nontrivial": 800,
        "counters": {"round_trips": 2000, "second_round_trips": 2000, "lp_comparisons": 2000, "models_with_min_objective": 100, "models_with_bounds_beyond_defaults": 100},
        "sets": {"channels": 10, "config_bounds": 4, "id_styles": 6},
    }


def plan(tier, seed):
    n = 16 if tier == "quick" else 64
    per = 60 if tier == "quick" else 400
    return [{"cases": per, "base": seed * 1000003 + k} for k in range(n)]


class LoaderModifiedItsInput(Exception):
    pass


def round_trip(model, channel, sort, tmpdir):
    import cobra.io as cio

    if channel == "json-string":
        return cio.from_json(cio.to_json(model, sort=sort))
    if channel == "json-string-pretty":
        return cio.from_json(cio.to_json(model, sort=sort, indent=2, sort_keys=True))
    if channel == "json-path":
        p = os.path.join(tmpdir, "m.json")
        cio.save_json_model(model, p, sort=sort)
        return cio.load_json_model(p)
    if channel == "json-handle":
        p = os.path.join(tmpdir, "mh.json")
        with open(p, "w") as f:
            cio.save_json_model(model, f, sort=sort, pretty=True)
        with open(p) as f:
            return cio.load_json_model(f)
    if channel == "yaml-string":
        return cio.from_yaml(cio.to_yaml(model, sort=sort))
    if channel == "yaml-path":
        p = os.path.join(tmpdir, "m.yml")
        cio.save_yaml_model(model, p, sort=sort)
        return cio.load_yaml_model(p)
    if channel == "yaml-handle":
        p = os.path.join(tmpdir, "mh.yml")
        with open(p, "w") as f:
            cio.save_yaml_model(model, f, sort=sort)
        with open(p) as f:
            return cio.load_yaml_model(f)
    if channel == "dict":
        d = cio.model_to_dict(model, sort=sort)
        d0 = copy.deepcopy(d)
        m1 = cio.model_from_dict(d)
        if d != d0:
            # the dictionary is the saved model: a loader that consumes it makes the second load a different model
            raise LoaderModifiedItsInput(next((f"{k}: {str(d0[k])[:120]} -> {str(d.get(k))[:120]}" for k in d0 if d.get(k) != d0[k]), "keys changed"))
        return m1
    if channel.startswith("pickle"):
        return pickle.loads(pickle.dumps(model, protocol=int(channel.split("-")[1])))
    raise AssertionError(channel)


def mechanism_key(channel, diffs, a, b):
    fam = channel.split("-")[0]
    fields = sorted({ioequiv.field_of(d) for d in diffs})
    if fields == ["model.direction"] and fam in ("json", "yaml", "dict"):
        return "C11/{json,yaml,dict}/objective-direction-not-carried"
    return f"C11/{fam}/differs/" + "+".join(fields[:3])


def run_case(base, case, acc, tmpdir):
    import cobra

    rng = gen.rng_for("C11", base, case)
    cfg = cobra.Configuration()
    old_bounds = cfg.bounds
    cb = rng.choice(["default", "default", (-50.0, 50.0), (0.0, 10.0), (-float("inf"), float("inf"))])
    acc.add("config_bounds", str(cb))
    try:
        if cb != "default":
            cfg.bounds = cb
        style = rng.choice(gen.ID_STYLES)
        acc.add("id_styles", style)
        model, rec = gen.io_model(rng, id_styles=[style, "plain"])
        # bound classes relative to the configured defaults
        for r in rng.sample(list(model.reactions), min(3, len(model.reactions))):
            r.bounds = rng.choice([(2000.0, 3000.0), (-3000.0, -2000.0), (-0.5, 0.25), (float("-inf"), float("inf")), (0.0, float("inf")), (1e-3, 1e6), (5.0, 5.0), (-1234.5678, 0.1 + 0.2)])
        if rng.random() < 0.3:
            # values these formats carry natively but a string-minded converter may not: null, nested containers, booleans, numbers
            pool = list(model.reactions) + list(model.metabolites) + list(model.genes) + [model]
            for x in rng.sample(pool, min(len(pool), rng.randint(1, 4))):
                x.notes = dict(x.notes)
                x.notes[rng.choice(["unset", "checked", "n"])] = rng.choice([None, None, {"a": None, "b": [None, "x"]}, True, 3, 0.25, [1, "two", None]])
                if rng.random() < 0.5 and x is not model:
                    x.annotation = dict(x.annotation)
                    x.annotation[rng.choice(["curated", "kegg.alt"])] = rng.choice([None, ["C1", None]])
            acc.count("models_with_null_or_nested_values_in_notes_or_annotation")
        if rng.random() < 0.3:
            model.objective_direction = "min"
        if model.objective_direction == "min":
            acc.count("models_with_min_objective")
        lo_d, hi_d = cfg.bounds
        if any(r.lower_bound > hi_d or r.upper_bound < lo_d or r.lower_bound > 1000 for r in model.reactions):
            acc.count("models_with_bounds_beyond_defaults")
        a = ioequiv.describe(model)
        raw_a = observe.raw_lp(model)
        sig = h(a)
        for channel in rng.sample(CHANNELS, 3):
            sort = rng.random() < 0.5
            acc.add("channels", channel)
            ident = {"base": base, "case": case, "channel": channel, "sort": sort, "config_bounds": str(cb), "id_style": style}
            acc.journal(dict(ident, about_to_run="round trip"))
            acc.ev()
            try:
                with warnings.catch_warnings():
                    warnings.simplefilter("ignore")
                    m1 = round_trip(model, channel, sort, tmpdir)
            except Exception as e:
                fam = channel.split("-")[0]
                if isinstance(e, LoaderModifiedItsInput):
                    acc.violation("C11/dict/model_from_dict-modified-the-dictionary", f"model_from_dict changed the dictionary it was given (loading it again gives another model): {e}", dict(ident, model=_brief(a)))
                    continue
                key = f"C11/{fam}/load-or-save-raised/{type(e).__name__}"
                acc.violation(key, f"round trip through {channel} raised {type(e).__name__}: {str(e)[:200]}", dict(ident, model=_brief(a)))
                continue
            acc.count("round_trips")
            groups = channel.startswith("pickle")
            known_direction = False
            b = ioequiv.describe(m1)
            d = ioequiv.diff(a, b, digits=None, groups=groups)
            fam = channel.split("-")[0]
            dir_d = [x for x in d if x.startswith("model.direction")]
            if dir_d and fam in ("json", "yaml", "dict") and a["direction"] == "min" and b["direction"] == "max":
                # known mechanism, judged on its own; everything else about minimisation
                # models is still compared with the direction aligned
                acc.violation("C11/{json,yaml,dict}/objective-direction-not-carried", f"after {channel}: {dir_d[0]}", dict(ident, diffs=dir_d, model=_brief(a)))
                d = [x for x in d if x not in dir_d]
                m1.objective_direction = a["direction"]
                b = ioequiv.describe(m1)
                known_direction = True
            if d:
                key = mechanism_key(channel, d, a, b)
                acc.violation(key, f"after {channel}: {d[0]}", dict(ident, diffs=d[:8], model=_brief(a)))
                continue
            acc.count("lp_comparisons")
            try:
                raw_b = observe.raw_lp(m1)
                what = ("cols", "rows", "obj", "dir") if raw_a["obj"] or raw_b["obj"] else ("cols", "rows", "obj")
                ld = observe.lp_diff(raw_a, raw_b, rel=1e-12, what=what) + observe.fba_problems(m1, raw=raw_b)
            except Exception as e:
                ld = [f"solver problem unreadable: {type(e).__name__}: {e}"]
            if ld:
                acc.violation(f"C11/{channel.split('-')[0]}/solver-problem-differs", f"after {channel} the solver problem differs: {ld[0]}", dict(ident, diffs=ld[:6], model=_brief(a)))
                continue
            try:
                with warnings.catch_warnings():
                    warnings.simplefilter("ignore")
                    m2 = round_trip(m1, channel, sort, tmpdir)
                d2 = ioequiv.diff(b, ioequiv.describe(m2), digits=None, groups=groups, ignore=("direction",) if known_direction else ())
            except Exception as e:
                d2 = [f"second round trip raised {type(e).__name__}: {e}"]
            acc.count("second_round_trips")
            if d2:
                acc.violation(f"C11/{channel.split('-')[0]}/second-round-trip-changes", f"second {channel} round trip: {d2[0]}", dict(ident, diffs=d2[:6]))
                continue
            if _has_nondefault(a):
                acc.nontrivial(sig, channel, sort, str(cb))
        if case < 2:
            acc.sample({"id_style": style, "config_bounds": str(cb), "reactions": list(a["reactions"])[:5], "genes": list(a["genes"]), "direction": a["direction"]})
    finally:
        cfg.bounds = old_bounds


def _has_nondefault(a):
    """>= 1 attribute class beyond a bare network: bound other than (0,1000)/(-1000,1000),
    a gene rule, an annotation/note, an awkward identifier, a minimisation objective."""
    for rid, r in a["reactions"].items():
        if (r["lower_bound"], r["upper_bound"]) not in ((0.0, 1000.0), (-1000.0, 1000.0)):
            return True
        if r["rule"][0] or r["annotation"] or r["notes"]:
            return True
        if not rid.replace("_", "").isalnum():
            return True
    return a["direction"] == "min" or any(m["annotation"] or m["charge"] is not None for m in a["metabolites"].values())


def _brief(a):
    return {"reactions": {k: [v["lower_bound"], v["upper_bound"], v["obj"]] for k, v in list(a["reactions"].items())[:12]}, "direction": a["direction"], "genes": list(a["genes"])}


def run_shard(desc, acc):
    with tempfile.TemporaryDirectory(prefix="cv-c11-") as tmpdir:
        first = desc.get("first", 0)
        for case in range(first, first + desc["cases"]):
            run_case(desc["base"], case, acc, tmpdir)
            acc.checkpoint()


def replay(w, acc):
    with tempfile.TemporaryDirectory(prefix="cv-c11-") as tmpdir:
        run_case(w["base"], w["case"], acc, tmpdir)
