"""Exact analysis oracles on top of exactlp (Appendix B of DESIGN.md).

All take the *Python-side* description of a model (through gen.model_lp) and work over
rationals.  They return None when the input is outside the oracle's domain
(unbounded ranges, too many cycle reactions, ...), never a guess.
"""
from fractions import Fraction as F

from cv import gen
from cv.exactlp import LP, ZERO, ONE, fr

INF = float("inf")


class Problem:
    """Exact FBA problem of a cobra model + helpers to extend it."""

    def __init__(self, model, knocked=()):
        self.model = model
        self.lp, self.col, self.c, self.direction = gen.model_lp(model, extra_zero=knocked)
        self.rids = [r.id for r in model.reactions]
        self.boundary = {r.id for r in model.reactions if r.boundary}
        self._opt = None

    def copy_lp(self):
        return self.lp.copy()

    def optimum(self):
        if self._opt is None:
            self._opt = self.lp.solve(self.c, self.direction)
        return self._opt

    def with_objective_fraction(self, lp, fraction):
        """Add  c.v >= f z*  (max)  or  <= f z*  (min).  Returns False if no optimum."""
        res = self.optimum()
        if res.status != "optimal":
            return False
        bound = fr(fraction) * res.obj
        if self.c:
            if self.direction == "max":
                lp.add_row(self.c, bound, None, "_objfrac")
            else:
                lp.add_row(self.c, None, bound, "_objfrac")
        return True


def add_abs(lp, cols):
    """t_j >= |v_j| via v_j = p_j - n_j is avoided; use two rows per variable.
    Returns list of t columns."""
    ts = []
    for j in cols:
        t = lp.add_var(0, None, f"_abs{j}")
        lp.add_row({t: 1, j: -1}, 0, None)  # t - v >= 0
        lp.add_row({t: 1, j: 1}, 0, None)  # t + v >= 0
        ts.append(t)
    return ts


def fva_exact(P, targets, fraction=1.0, pfba_factor=None):
    """{rid: (min, max)} as Fractions, or None if some range is unbounded / no optimum."""
    lp = P.copy_lp()
    if not P.with_objective_fraction(lp, fraction):
        return None
    if pfba_factor is not None:
        ts = add_abs(lp, [P.col[r] for r in P.rids])
        tot = {t: 1 for t in ts}
        r0 = lp.solve(tot, "min")
        if r0.status != "optimal":
            return None
        lp.add_row(tot, None, fr(pfba_factor) * r0.obj, "_fluxsum")
    out = {}
    for rid in targets:
        j = P.col[rid]
        lo = lp.solve({j: 1}, "min")
        hi = lp.solve({j: 1}, "max")
        if lo.status != "optimal" or hi.status != "optimal":
            return None
        out[rid] = (lo.obj, hi.obj)
    return out


# ---------------------------------------------------------------------------
# exact null space / cycles
# ---------------------------------------------------------------------------
def nullspace_exact(rows, ncols):
    """Basis of {x : R x = 0} for a list of dict rows (col->Fraction)."""
    M = [[ZERO] * ncols for _ in rows]
    for i, r in enumerate(rows):
        for j, v in r.items():
            M[i][j] = fr(v)
    piv_cols = []
    r = 0
    for c in range(ncols):
        p = None
        for i in range(r, len(M)):
            if M[i][c] != 0:
                p = i
                break
        if p is None:
            continue
        M[r], M[p] = M[p], M[r]
        pv = M[r][c]
        M[r] = [v / pv for v in M[r]]
        for i in range(len(M)):
            if i != r and M[i][c] != 0:
                f = M[i][c]
                M[i] = [a - f * b for a, b in zip(M[i], M[r])]
        piv_cols.append(c)
        r += 1
        if r == len(M):
            break
    free = [c for c in range(ncols) if c not in piv_cols]
    basis = []
    for fcol in free:
        x = [ZERO] * ncols
        x[fcol] = ONE
        for i, pc in enumerate(piv_cols):
            x[pc] = -M[i][fcol]
        basis.append(x)
    return basis


class Cycles:
    """Internal cycle structure of a model (exact)."""

    def __init__(self, model):
        self.internal = [r.id for r in model.reactions if not r.boundary]
        idx = {rid: k for k, rid in enumerate(self.internal)}
        rows = []
        for met in model.metabolites:
            row = {}
            for r in met.reactions:
                if r.id in idx and r.model is model:
                    row[idx[r.id]] = r.metabolites[met]
            if row:
                rows.append(row)
        self.N = nullspace_exact(rows, len(self.internal))  # list of vectors over internal
        self.cycle_rxns = [rid for k, rid in enumerate(self.internal) if any(n[k] != 0 for n in self.N)]
        self.idx = idx

    def orientation_feasible(self, orient, gmax=None):
        """orient: {rid: +1|-1} on cycle reactions.  Exists g with N g = 0,
        g_i <= -1 (orient +1), g_i >= 1 (orient -1)?  gmax: additionally |g_i| <= gmax
        (the published big-M formulation bounds the energies)."""
        lp = LP()
        g = {}
        for rid in self.cycle_rxns:
            if orient[rid] > 0:
                g[rid] = lp.add_var(None if gmax is None else -fr(gmax), -1)
            else:
                g[rid] = lp.add_var(1, None if gmax is None else fr(gmax))
        for n in self.N:
            co = {g[rid]: n[self.idx[rid]] for rid in self.cycle_rxns if n[self.idx[rid]] != 0}
            if co:
                lp.add_row(co, 0, 0)
        return lp.solve({}, "min").status == "optimal"

    def feasible_orientations(self, bounds, limit=7, gmax=None):
        """All thermodynamically feasible sign patterns of the cycle reactions that the
        bounds allow.  bounds: {rid: (lb, ub)}.  None if too many cycle reactions."""
        import itertools

        if len(self.cycle_rxns) > limit:
            return None
        choices = []
        for rid in self.cycle_rxns:
            lb, ub = bounds[rid]
            ch = []
            if ub > 0 or (lb <= 0 <= ub):
                ch.append(1)
            if lb < 0 or (lb <= 0 <= ub):
                ch.append(-1)
            choices.append(sorted(set(ch)))
        out = []
        for combo in itertools.product(*choices):
            o = dict(zip(self.cycle_rxns, combo))
            if self.orientation_feasible(o, gmax):
                out.append(o)
        return out


def restrict(lp, P, orient):
    """Copy of lp with sign restrictions on the cycle reactions."""
    lp2 = lp.copy()
    for rid, s in orient.items():
        j = P.col[rid]
        if s > 0:
            if lp2.lo[j] is None or lp2.lo[j] < 0:
                lp2.lo[j] = ZERO
        else:
            if lp2.hi[j] is None or lp2.hi[j] > 0:
                lp2.hi[j] = ZERO
    for j in range(len(lp2.lo)):
        if lp2.lo[j] is not None and lp2.hi[j] is not None and lp2.lo[j] > lp2.hi[j]:
            return None
    return lp2


def loopless_opt(P, cyc, orients, lp=None, c=None, sense=None):
    """Best objective over all loop-free distributions (union over orientations).
    Returns (status, value)."""
    lp = lp if lp is not None else P.lp
    c = P.c if c is None else c
    sense = sense or P.direction
    best = None
    any_unbounded = False
    for o in orients:
        l2 = restrict(lp, P, o)
        if l2 is None:
            continue
        r = l2.solve(c, sense)
        if r.status == "unbounded":
            any_unbounded = True
        elif r.status == "optimal":
            if best is None or (r.obj > best if sense == "max" else r.obj < best):
                best = r.obj
    if any_unbounded:
        return "unbounded", None
    if best is None:
        return "infeasible", None
    return "optimal", best


def loopless_fva_exact(P, cyc, orients, targets, fraction=1.0):
    """Exact loopless FVA: the objective requirement refers to the *plain* optimum (that
    is what the implementation's fva_old_objective encodes)."""
    lp = P.copy_lp()
    if not P.with_objective_fraction(lp, fraction):
        return None
    out = {}
    for rid in targets:
        j = P.col[rid]
        s1, lo = loopless_opt(P, cyc, orients, lp, {j: 1}, "min")
        s2, hi = loopless_opt(P, cyc, orients, lp, {j: 1}, "max")
        if s1 != "optimal" or s2 != "optimal":
            return None
        out[rid] = (lo, hi)
    return out


# ---------------------------------------------------------------------------
# pFBA / MOMA / ROOM
# ---------------------------------------------------------------------------
def pfba_exact(P, fraction=1.0, c=None, direction=None):
    """Minimal total flux T* over {c.v >= f z*}.  Returns (T*, z*) or None."""
    lp = P.copy_lp()
    c = P.c if c is None else c
    direction = direction or P.direction
    res = lp.solve(c, direction)
    if res.status != "optimal":
        return None
    bound = fr(fraction) * res.obj
    if c:
        if direction == "max":
            lp.add_row(c, bound, None)
        else:
            lp.add_row(c, None, bound)
    ts = add_abs(lp, [P.col[r] for r in P.rids])
    r0 = lp.solve({t: 1 for t in ts}, "min")
    if r0.status != "optimal":
        return None
    return r0.obj, res.obj


def moma_exact(P, ref):
    """Linear MOMA: D* = min sum |v - w| over P; growth interval over the minimisers.
    ref: {rid: float}.  Returns (D*, gmin, gmax) or None (infeasible)."""
    lp = P.copy_lp()
    ds = []
    for rid in P.rids:
        j = P.col[rid]
        w = fr(float(ref[rid]))
        d = lp.add_var(0, None)
        lp.add_row({d: 1, j: -1}, -w, None)  # d >= v - w  ->  d - v >= -w
        lp.add_row({d: 1, j: 1}, w, None)  # d >= w - v  ->  d + v >= w
        ds.append(d)
    tot = {d: 1 for d in ds}
    r0 = lp.solve(tot, "min")
    if r0.status != "optimal":
        return None
    lp.add_row(tot, None, r0.obj)
    if not P.c:
        return r0.obj, ZERO, ZERO
    lo = lp.solve(P.c, "min")
    hi = lp.solve(P.c, "max")
    if lo.status != "optimal" or hi.status != "optimal":
        return None
    return r0.obj, lo.obj, hi.obj


def feasible_with(lp, extra_bounds):
    lp2 = lp.copy()
    for j, (lo, hi) in extra_bounds.items():
        if lo is not None and (lp2.lo[j] is None or lp2.lo[j] < lo):
            lp2.lo[j] = lo
        if hi is not None and (lp2.hi[j] is None or lp2.hi[j] > hi):
            lp2.hi[j] = hi
        if lp2.lo[j] is not None and lp2.hi[j] is not None and lp2.lo[j] > lp2.hi[j]:
            return False
    return lp2.solve({}, "min").status == "optimal"


def room_bands(ref, delta, eps):
    out = {}
    for rid, w in ref.items():
        w = fr(float(w))
        d, e = fr(delta), fr(eps)
        out[rid] = (w - d * abs(w) - e, w + d * abs(w) + e)
    return out


def room_exact(P, ref, delta=0.03, eps=0.001, max_k=4):
    """Minimal number of fluxes outside [w_l, w_u] over P (documented ROOM objective).
    Returns the count, "infeasible" or None (not decided within max_k)."""
    import itertools

    if P.lp.solve({}, "min").status != "optimal":
        return "infeasible"
    bands = room_bands(ref, delta, eps)
    # reactions whose whole bound range lies in the band can never be outside
    cand = []
    for rid in P.rids:
        j = P.col[rid]
        lo, hi = P.lp.lo[j], P.lp.hi[j]
        wl, wu = bands[rid]
        if lo is not None and hi is not None and lo >= wl and hi <= wu:
            continue
        cand.append(rid)
    for k in range(0, min(max_k, len(cand)) + 1):
        for outside in itertools.combinations(cand, k):
            eb = {}
            for rid in P.rids:
                if rid in outside:
                    continue
                wl, wu = bands[rid]
                eb[P.col[rid]] = (wl, wu)
            if feasible_with(P.lp, eb):
                return k
    return None


def room_linear_exact(P, ref):
    """Documented linear relaxation with delta = eps = 0."""
    lp = P.copy_lp()
    ys = []
    for rid in P.rids:
        j = P.col[rid]
        w = fr(float(ref[rid]))
        lo, hi = lp.lo[j], lp.hi[j]
        if lo is None or hi is None:
            return None
        y = lp.add_var(0, 1)
        # v - y (ub - w) <= w ;  v - y (lb - w) >= w
        lp.add_row({j: 1, y: -(hi - w)}, None, w)
        lp.add_row({j: 1, y: -(lo - w)}, w, None)
        ys.append(y)
    r = lp.solve({y: 1 for y in ys}, "min")
    if r.status != "optimal":
        return "infeasible"
    return r.obj
