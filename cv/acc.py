"""Accumulator for what one shard observed; merged by the runner.

Everything in here is measured by the monitors while they run:
evaluations (oracle judgements), signatures of non-trivial cases (a set, so the
size is a count of *distinct* cases), named counters, named sets, samples, and
violations keyed by a mechanism signature.
"""
import hashlib
import json
import traceback


def h(obj) -> str:
    """Short stable hash of any JSON-able (or repr-able) object."""
    try:
        s = json.dumps(obj, sort_keys=True, default=repr)
    except Exception:
        s = repr(obj)
    return hashlib.md5(s.encode("utf-8", "backslashreplace")).hexdigest()[:12]


class Acc:
    MAX_VIOL_PER_KEY = 3
    MAX_SAMPLES = 4
    MAX_SET = 4000

    def __init__(self):
        self.evaluations = 0
        self.sigs = set()
        self.counters = {}
        self.sets = {}
        self.samples = []
        self.violations = {}  # key -> {"count": n, "what": str, "witnesses": [..]}
        self.harness_errors = []
        self.journal_path = None

    def journal(self, obj):
        """Remember what is about to be executed, so that a native crash (GLPK abort,
        segfault) or a hang can be attributed to a case by the parent process."""
        if self.journal_path:
            try:
                with open(self.journal_path, "w") as f:
                    json.dump(obj, f, default=repr)
            except Exception:
                pass

    def checkpoint(self, every_s=3.0):
        """Dump what was observed so far (so a later native crash loses little)."""
        import time

        now = time.time()
        if self.journal_path and now - getattr(self, "_last_ckpt", 0) > every_s:
            self._last_ckpt = now
            p = self.journal_path.replace(".journal", ".ckpt")
            try:
                with open(p + ".tmp", "w") as f:
                    json.dump(self.to_json(), f, default=repr)
                import os

                os.replace(p + ".tmp", p)
            except Exception:
                pass

    # -- counting ---------------------------------------------------------
    def ev(self, n=1):
        self.evaluations += n

    def nontrivial(self, *sig):
        self.sigs.add(h(sig))

    def count(self, name, n=1):
        self.counters[name] = self.counters.get(name, 0) + n

    def add(self, setname, value):
        s = self.sets.setdefault(setname, set())
        if len(s) < self.MAX_SET:
            s.add(value if isinstance(value, str) else h(value))

    def sample(self, obj):
        if len(self.samples) < self.MAX_SAMPLES:
            self.samples.append(obj)

    # -- verdict pieces ---------------------------------------------------
    def violation(self, key, what, witness):
        v = self.violations.setdefault(key, {"count": 0, "what": what, "witnesses": []})
        v["count"] += 1
        if len(v["witnesses"]) < self.MAX_VIOL_PER_KEY:
            v["witnesses"].append(witness)

    def harness_error(self, where, exc=None):
        txt = where
        if exc is not None:
            txt += ": " + "".join(
                traceback.format_exception(type(exc), exc, exc.__traceback__)
            )[-3000:]
        if len(self.harness_errors) < 5:
            self.harness_errors.append(txt)
        self.count("harness_errors")

    # -- (de)serialisation ------------------------------------------------
    def to_json(self):
        return {
            "evaluations": self.evaluations,
            "sigs": sorted(self.sigs),
            "counters": self.counters,
            "sets": {k: sorted(v) for k, v in self.sets.items()},
            "samples": self.samples,
            "violations": self.violations,
            "harness_errors": self.harness_errors,
        }

    def merge_json(self, d):
        self.evaluations += d["evaluations"]
        self.sigs.update(d["sigs"])
        for k, v in d["counters"].items():
            self.counters[k] = self.counters.get(k, 0) + v
        for k, v in d["sets"].items():
            self.sets.setdefault(k, set()).update(v)
        for s in d["samples"]:
            if len(self.samples) < 5:
                self.samples.append(s)
        for k, v in d["violations"].items():
            mine = self.violations.setdefault(
                k, {"count": 0, "what": v["what"], "witnesses": []}
            )
            mine["count"] += v["count"]
            for w in v["witnesses"]:
                if len(mine["witnesses"]) < self.MAX_VIOL_PER_KEY:
                    mine["witnesses"].append(w)
        for e in d["harness_errors"]:
            if len(self.harness_errors) < 10:
                self.harness_errors.append(e)
