"""Child-process entry point: run one shard of one property and dump its Acc.

usage: python -m cv.shard <Cxx> <desc.json> <out.json>
"""
import faulthandler
import importlib
import json
import logging
import os
import sys
import time
import warnings


def reach_start(prefixes):
    """Record which functions under the given path fragments were entered.

    sys.monitoring PY_START with DISABLE after the first hit: near-zero cost,
    answers "did the workload reach the anchored mechanism at all".
    """
    reached = set()
    mon = getattr(sys, "monitoring", None)
    if mon is None:
        return reached, lambda: None
    tool = mon.PROFILER_ID
    try:
        mon.use_tool_id(tool, "cv-reach")
    except ValueError:
        return reached, lambda: None

    def on_start(code, offset):
        fn = code.co_filename
        for p in prefixes:
            i = fn.find(p)
            if i >= 0:
                reached.add(fn[i:] + ":" + code.co_qualname)
                break
        return mon.DISABLE

    mon.register_callback(tool, mon.events.PY_START, on_start)
    events = mon.events.PY_START
    lines = None
    if os.environ.get("CV_LINECOV"):
        # optional workload audit (tools/linecov.py): which statements of cobra the shard executed
        lines = set()

        def on_line(code, line):
            fn = code.co_filename
            i = fn.find("/cobra/")
            if i >= 0:
                lines.add((fn[i + 1:], line))
            return mon.DISABLE

        mon.register_callback(tool, mon.events.LINE, on_line)
        events |= mon.events.LINE
    mon.set_events(tool, events)

    def stop():
        if lines is not None:
            d = os.environ["CV_LINECOV"]
            os.makedirs(d, exist_ok=True)
            with open(os.path.join(d, "%d.json" % os.getpid()), "w") as f:
                json.dump(sorted(lines), f)
        try:
            mon.set_events(tool, 0)
            mon.free_tool_id(tool)
        except Exception:
            pass

    return reached, stop


def main():
    prop, descfile, outfile = sys.argv[1:4]
    faulthandler.enable()
    # stack dump on demand: before the parent kills a stalled shard it sends SIGUSR1, so
    # that the log shows where the shard was stuck.  (A periodic
    # faulthandler.dump_traceback_later() segfaulted the interpreter under sys.monitoring.)
    import signal

    faulthandler.register(signal.SIGUSR1, all_threads=False)
    warnings.simplefilter("ignore")
    logging.disable(logging.CRITICAL)
    with open(descfile) as f:
        desc = json.load(f)
    t0 = time.time()
    reached, stop = reach_start(["cobra/"])
    from cv.acc import Acc

    mod = importlib.import_module("cv.props." + prop.lower())
    import cobra

    acc = Acc()
    acc.journal_path = outfile + ".journal"
    want = os.environ.get("CV_COBRA_SRC") or "/repo/src"
    if not os.path.abspath(cobra.__file__).startswith(os.path.abspath(want)):
        acc.harness_error(f"cobra imported from {cobra.__file__}, expected {want}")
    else:
        if "cases" in desc:
            # a native abort before the driver journals its first case (e.g. GLPK inside the preparation of a
            # start model) is attributed to that case, so that the parent can resume behind it
            acc.journal({"about_to_run": "first case of the shard (preparation)", "case": desc.get("first", 0), "base": desc.get("base")})
        try:
            if desc.get("kind") == "suite":
                from cv import suiterun

                suiterun.run(prop, desc, acc)
            else:
                mod.run_shard(desc, acc)
        except Exception as e:  # harness failure, not a verdict
            acc.harness_error("run_shard raised", e)
    stop()
    out = acc.to_json()
    out["reached"] = sorted(reached)
    out["wall_s"] = time.time() - t0
    out["desc"] = desc
    tmp = outfile + ".tmp"
    with open(tmp, "w") as f:
        json.dump(out, f, default=repr)
    os.replace(tmp, outfile)


if __name__ == "__main__":
    main()
