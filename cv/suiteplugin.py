"""pytest plugin (-p cv.suiteplugin): arms the monitors of cv.suitemon named in $CV_SUITEMON
before the test modules are imported, tags every event with the running test, and dumps
the counters at the end of the session (one log file per process under $CV_SUITEMON_LOG)."""
import os


def pytest_configure(config):
    props = [p for p in os.environ.get("CV_SUITEMON", "").split(",") if p]
    if not props:
        return
    import cobra  # noqa: F401  (the repository's package, whatever PYTHONPATH says)
    import cobra.flux_analysis  # noqa: F401
    import cobra.medium  # noqa: F401
    import cobra.sampling  # noqa: F401
    import cobra.summary  # noqa: F401
    from cv import suitemon

    suitemon.install(props, os.environ["CV_SUITEMON_LOG"])
    suitemon.emit({"k": "session", "pid": os.getpid(), "cobra": cobra.__file__, "props": props})


def pytest_runtest_setup(item):
    if os.environ.get("CV_SUITEMON"):
        from cv import suitemon

        suitemon.set_test(item.nodeid)


def pytest_runtest_logreport(report):
    if os.environ.get("CV_SUITEMON") and report.when == "call":
        from cv import suitemon

        suitemon.count("tests_" + report.outcome)


def pytest_sessionfinish(session, exitstatus):
    if os.environ.get("CV_SUITEMON"):
        from cv import suitemon

        suitemon.end_test()
        suitemon.flush()
