"""Known-findings file reader.  The file is committed and read-only at run time.

/verif/known_findings.txt, one entry per line:

  known: property=<id> key=<mechanism signature> <what fails>
  fixed: property=<id> <commit> <what failed>

`key` is the mechanism signature the monitor computes from the *structure* of a
failure (never from random values).  Only "known:" lines suppress a violation with
exactly that key (it is then printed as a KNOWN-FINDING line); "fixed:" lines are a
record and suppress nothing.
"""
import os
import re

from cv import VERIF_DIR

PATH = os.path.join(VERIF_DIR, "known_findings.txt")
_known = re.compile(r"^known:\s+property=(\S+)\s+key=(\S+)\s+(.*)$")


def load(prop):
    out = {}
    if not os.path.exists(PATH):
        return out
    with open(PATH) as f:
        for line in f:
            m = _known.match(line.strip())
            if m and m.group(1) == prop:
                out[m.group(2)] = {"status": "known", "what": m.group(3), "key": m.group(2)}
    return out
