"""S4 - generators: stoichiometric networks ("recipes"), gene rules, identifiers.

A *recipe* is plain JSON-able data (so it can go into a witness and be rebuilt
without cobrapy's own I/O):

  {"id": str, "direction": "max"|"min",
   "mets": [{"id","compartment","name","formula","charge"}],
   "rxns": [{"id","stoich":{met:coef},"lb","ub","gpr","obj","name","subsystem"}]}

All numbers are small integers or dyadic rationals, so Fraction(float) is exact and
short; +-inf bounds are written as the strings "inf"/"-inf".
"""
import math
import random

INF = float("inf")


def rng_for(*parts):
    return random.Random(hash_parts(parts))


def hash_parts(parts):
    import hashlib

    return int(hashlib.md5(repr(parts).encode()).hexdigest()[:15], 16)


# ----------------------------------------------------------------------------
# gene rules
# ----------------------------------------------------------------------------
AWKWARD_IDS = [
    "b0351", "G1", "0abc", "1", "12.5", "1e5", "b0351.1", "ncbigene:123", "a-b/c", "if",
    "lambda", "None", "True", "in", "is", "not", "Or", "x_AND_y", "a=", "''q''", 'd"q',
    "if.else", "9/11", "g-1", "s0001", "YAL001C", "3.2.1", "x:y:z", "A.B-C", "k=v", "for",
    # every other Python keyword (the parser escapes them with a prefix) ...
    "pass", "as", "class", "else", "except", "assert", "async", "await", "break", "continue",
    "def", "del", "elif", "finally", "from", "global", "import", "nonlocal", "raise", "return",
    "try", "while", "with", "yield", "False",
    # ... and identifiers carrying an operator word as a token of their own
    "OR-1", "x.AND", "HGNC:OR", "AND/2", "ORF1", "BRAND1", "or-1", "and.x", "x-or", "AND.1",
]
PLAIN_IDS = ["g%d" % i for i in range(1, 12)]


def gpr_tree(rng, genes, depth=3, arity=4):
    """Random and/or tree over `genes` -> nested tuple ('and'|'or', [children]) | gene."""
    if depth == 0 or rng.random() < 0.3 or len(genes) == 1:
        return rng.choice(genes)
    op = rng.choice(["and", "or"])
    k = rng.randint(2, arity)
    return (op, [gpr_tree(rng, genes, depth - 1, arity) for _ in range(k)])


def gpr_eval(tree, absent):
    """True iff the rule is satisfied when the genes in `absent` are missing."""
    if tree is None:
        return True
    if isinstance(tree, str):
        return tree not in absent
    op, kids = tree
    if op == "and":
        return all(gpr_eval(k, absent) for k in kids)
    return any(gpr_eval(k, absent) for k in kids)


def gpr_genes(tree):
    if tree is None:
        return set()
    if isinstance(tree, str):
        return {tree}
    out = set()
    for k in tree[1]:
        out |= gpr_genes(k)
    return out


def gpr_text(tree, rng=None, style=None, top=True):
    """Render with spelling variants. style: dict(and=..., or=..., paren=prob, blanks=bool)."""
    if tree is None:
        return ""
    if style is None:
        style = {"and": "and", "or": "or", "paren": 0.0, "blanks": False}
    if isinstance(tree, str):
        s = tree
        if rng is not None and rng.random() < style.get("paren", 0) / 2:
            s = f"({s})"
        return s
    op, kids = tree
    word = style["and"] if op == "and" else style["or"]
    parts = [gpr_text(k, rng, style, False) for k in kids]
    sep = f" {word} " if not style.get("blanks") else f"  {word}   "
    s = sep.join(parts)
    if not top or (rng is not None and rng.random() < style.get("paren", 0)):
        s = f"({s})"
    if rng is not None and rng.random() < style.get("paren", 0) / 2:
        s = f"( {s} )"
    return s


STYLES = [
    {"and": "and", "or": "or", "paren": 0.0, "blanks": False},
    {"and": "AND", "or": "OR", "paren": 0.0, "blanks": False},
    {"and": "&", "or": "|", "paren": 0.0, "blanks": False},
    {"and": "and", "or": "or", "paren": 0.6, "blanks": True},
    {"and": "AND", "or": "or", "paren": 0.3, "blanks": False},
]


def truth_table(tree, genes):
    """tuple of bools over all subsets of `genes` (sorted) being absent."""
    genes = sorted(genes)
    out = []
    for mask in range(1 << len(genes)):
        absent = {g for i, g in enumerate(genes) if mask >> i & 1}
        out.append(gpr_eval(tree, absent))
    return tuple(out)


# ----------------------------------------------------------------------------
# networks
# ----------------------------------------------------------------------------
COEFS = [1, 1, 1, 2, 1, 3, 0.5, 1.5, 2, 1, 0.25, 4]


def _b(x):
    if x == "inf":
        return INF
    if x == "-inf":
        return -INF
    return x


def _jb(x):
    if x == INF:
        return "inf"
    if x == -INF:
        return "-inf"
    return x


def network(rng, size=None, genes=None, want="any", finite=False, allow_forced=True, gene_ids=None, p_cycle=0.6, big_choices=None):
    """Random network recipe.  want in {"any","feasible-ish"} only biases construction;
    the exact oracle labels the result afterwards."""
    size = size or rng.randint(1, 4)
    n_int = rng.randint(2, 2 + 2 * size)
    mets = []
    for i in range(n_int):
        mets.append({"id": f"m{i}_c", "compartment": "c", "name": f"met {i}", "formula": rng.choice(["C6H12O6", "H2O", "CO2", "C3H4O3", ""]), "charge": rng.choice([0, -1, -2, 1, None])})
    rxns = []
    rid = [0]

    def R(stoich, lb, ub, obj=0, prefix="R"):
        rid[0] += 1
        r = {"id": f"{prefix}{rid[0]}", "stoich": {k: v for k, v in stoich.items() if v != 0}, "lb": _jb(lb), "ub": _jb(ub), "gpr": None, "obj": obj, "name": f"reaction {rid[0]}", "subsystem": rng.choice(["", "glycolysis", "transport"])}
        rxns.append(r)
        return r

    big = rng.choice(big_choices or [1000, 1000, 1000, 100, 50])  # big_choices: e.g. capacities beyond the configured default bounds

    def irr():
        return (0, rng.choice([big, big, 10, 20, INF if not finite else big]))

    def rev():
        return rng.choice([(-big, big), (-big, big), (-10, 10), (-5, big), ((-INF, INF) if not finite else (-big, big))])

    def anyb():
        r = rng.random()
        if r < 0.5:
            return irr()
        if r < 0.8:
            return rev()
        if r < 0.85:
            return (-rng.choice([big, 10]), 0)  # reverse only
        if r < 0.9 and allow_forced:
            return (rng.choice([1, 2]), rng.choice([5, big]))  # forced
        if r < 0.93:
            return (0, 0)
        if r < 0.96 and allow_forced:
            v = rng.choice([1, 2, 0.5])
            return (v, v)  # fixed
        if r < 0.98 and not finite:
            return (-2000, 3000)  # beyond the configured default bounds
        return irr()

    ints = [m["id"] for m in mets]
    # --- backbone: uptake -> transport -> chain -> biomass-ish sink
    n_ext = rng.randint(1, 1 + size)
    exts = []
    for k in range(n_ext):
        e = {"id": f"x{k}_e", "compartment": "e", "name": f"ext {k}", "formula": "", "charge": None}
        mets.append(e)
        exts.append(e["id"])
        up = rng.choice([10, 10, 5, 20, big])
        style = rng.random()
        if style < 0.6:  # export-written exchange  x_e <=>
            ex = R({e["id"]: -1}, -up if rng.random() < 0.8 else 0, rng.choice([big, big, 0, 10]), prefix="EX_")
        elif style < 0.85:  # import-written  <=> x_e
            ex = R({e["id"]: 1}, rng.choice([-big, 0, -10]), up, prefix="EX_")
        else:  # non-unit coefficient
            ex = R({e["id"]: -rng.choice([2, 0.5])}, -up, big, prefix="EX_")
        ex["id"] = "EX_" + e["id"]
        tgt = rng.choice(ints)
        lb, ub = rev() if rng.random() < 0.5 else irr()
        R({e["id"]: -1, tgt: rng.choice([1, 1, 2])}, lb, ub, prefix="T")
    # chain / branches
    order = ints[:]
    rng.shuffle(order)
    for a, b_ in zip(order, order[1:]):
        if rng.random() < 0.85:
            st = {a: -rng.choice(COEFS), b_: rng.choice(COEFS)}
            if rng.random() < 0.25:
                c3 = rng.choice(ints)
                if c3 not in st:
                    st[c3] = rng.choice([-1, 1, 0.5, -2])
            lb, ub = anyb() if rng.random() < 0.5 else irr()
            R(st, lb, ub)
    # extra random reactions
    for _ in range(rng.randint(0, 2 * size)):
        k = rng.randint(2, min(4, len(ints)))
        ms = rng.sample(ints, k)
        st = {}
        for i, m_ in enumerate(ms):
            st[m_] = rng.choice(COEFS) * (-1 if i < k // 2 or (i == 0) else 1)
        R(st, *anyb())
    # internal cycle
    if rng.random() < p_cycle and len(ints) >= 3:
        L = rng.randint(2, min(4, len(ints)))
        cyc = rng.sample(ints, L)
        for i in range(L):
            a, b_ = cyc[i], cyc[(i + 1) % L]
            R({a: -1, b_: 1}, *(rev() if rng.random() < 0.5 else irr()))
    # duplicate reaction
    if rng.random() < 0.2 and rxns:
        src = rng.choice(rxns)
        R(dict(src["stoich"]), *anyb())
    # sinks / demands / secretion
    out_met = order[-1]
    bm = {out_met: -rng.choice([1, 1, 2, 0.5])}
    if rng.random() < 0.4 and len(ints) > 2:
        bm[rng.choice([m for m in ints if m != out_met])] = -rng.choice([1, 0.5, 0.25])
    biomass = R(bm, 0, rng.choice([big, big, INF if not finite else big]), obj=1, prefix="BIO")
    for m_ in ints:
        if rng.random() < 0.2:
            typ = rng.choice(["DM_", "SK_"])
            if typ == "DM_":
                r = R({m_: -1}, 0, big, prefix=typ)
            else:
                r = R({m_: -1}, -rng.choice([big, 10]), big, prefix=typ)
            r["id"] = typ + m_
    # secretion of byproduct to outside
    if rng.random() < 0.5:
        e = {"id": f"y_e", "compartment": "e", "name": "byproduct", "formula": "", "charge": None}
        mets.append(e)
        R({rng.choice(ints): -1, e["id"]: 1}, *irr(), prefix="T")
        ex = R({e["id"]: -1}, rng.choice([0, -big]), big, prefix="EX_")
        ex["id"] = "EX_y_e"
    # dead end metabolite
    if rng.random() < 0.3:
        d = {"id": "dead_c", "compartment": "c", "name": "dead end", "formula": "", "charge": 0}
        mets.append(d)
        R({rng.choice(ints): -1, d["id"]: 1}, *irr())
    # objective variety
    r = rng.random()
    if r < 0.15:
        other = rng.choice(rxns)
        other["obj"] = rng.choice([1, -1, 0.5, 2])
    elif r < 0.2:
        biomass["obj"] = 0  # empty objective
    elif r < 0.3:
        biomass["obj"] = 0
        rng.choice(rxns)["obj"] = 1
    direction = "max" if rng.random() < 0.8 else "min"
    # genes
    if genes is None:
        genes = rng.randint(0, 6)
    if genes:
        gids = gene_ids or rng.sample(PLAIN_IDS, genes)
        for r_ in rxns:
            if r_["id"].startswith(("EX_", "DM_", "SK_")):
                continue
            if rng.random() < 0.7:
                r_["gpr"] = gpr_tree(rng, gids, depth=rng.randint(0, 3), arity=rng.choice([2, 3, 4]))
    # de-duplicate ids (prefix renames may collide)
    seen = set()
    for r_ in rxns:
        while r_["id"] in seen:
            r_["id"] += "_b"
        seen.add(r_["id"])
    return {"id": "gen", "direction": direction, "mets": mets, "rxns": rxns}


def tiny_network(rng):
    """3-6 reactions; used where an oracle enumerates exponentially."""
    return network(rng, size=1, finite=True)


# ----------------------------------------------------------------------------
# recipe -> cobra model / exact LP
# ----------------------------------------------------------------------------
def build(recipe, name_attrs=True):
    import cobra

    m = cobra.Model(recipe.get("id", "gen"))
    mets = {}
    for d in recipe["mets"]:
        x = cobra.Metabolite(d["id"], compartment=d.get("compartment"))
        if name_attrs:
            x.name = d.get("name", "")
            if d.get("formula"):
                x.formula = d["formula"]
            if d.get("charge") is not None:
                x.charge = d["charge"]
        mets[d["id"]] = x
    rs = []
    for d in recipe["rxns"]:
        r = cobra.Reaction(d["id"], lower_bound=_b(d["lb"]), upper_bound=_b(d["ub"]))
        if name_attrs:
            r.name = d.get("name", "")
            r.subsystem = d.get("subsystem", "")
        r.add_metabolites({mets[k]: v for k, v in d["stoich"].items()})
        if d.get("gpr") is not None:
            g = d["gpr"]
            r.gene_reaction_rule = g if isinstance(g, str) else gpr_text(_tuplify(g))
        rs.append(r)
    m.add_metabolites(list(mets.values()))
    m.add_reactions(rs)
    m.objective = {m.reactions.get_by_id(d["id"]): d["obj"] for d in recipe["rxns"] if d.get("obj")}
    m.objective_direction = recipe.get("direction", "max")
    return m


def _tuplify(t):
    if t is None or isinstance(t, str):
        return t
    return (t[0], [_tuplify(k) for k in t[1]])


def recipe_lp(recipe, knocked=()):
    """Exact LP of a recipe: returns (LP, colindex, c, direction)."""
    from cv.exactlp import LP

    lp = LP()
    col = {}
    for d in recipe["rxns"]:
        lo, hi = _b(d["lb"]), _b(d["ub"])
        if d["id"] in knocked:
            lo = hi = 0
        col[d["id"]] = lp.add_var(None if lo == -INF else lo, None if hi == INF else hi, d["id"])
    for md in recipe["mets"]:
        co = {}
        for d in recipe["rxns"]:
            v = d["stoich"].get(md["id"])
            if v:
                co[col[d["id"]]] = v
        lp.add_row(co, 0, 0, md["id"])
    c = {col[d["id"]]: d["obj"] for d in recipe["rxns"] if d.get("obj")}
    return lp, col, c, recipe.get("direction", "max")


def model_lp(model, extra_zero=()):
    """Exact LP built from the *Python-side* data of a cobra model only
    (reaction.metabolites, reaction.bounds, linear_reaction_coefficients,
    objective_direction)."""
    from cobra.util.solver import linear_reaction_coefficients
    from cv.exactlp import LP

    lp = LP()
    col = {}
    for r in model.reactions:
        lo, hi = r.bounds
        if r.id in extra_zero:
            lo = hi = 0
        col[r.id] = lp.add_var(None if lo == -INF else lo, None if hi == INF else hi, r.id)
    for met in model.metabolites:
        co = {}
        for r in met.reactions:
            co[col[r.id]] = r.metabolites[met]
        lp.add_row(co, 0, 0, met.id)
    c = {col[r.id]: v for r, v in linear_reaction_coefficients(model).items()}
    return lp, col, c, model.objective_direction


def classify(recipe):
    """Label a recipe with the exact oracle."""
    lp, col, c, direction = recipe_lp(recipe)
    res = lp.solve(c, direction)
    lab = {"status": res.status}
    if res.status == "optimal":
        lab["opt"] = res.obj
        lab["opt_nonzero"] = res.obj != 0
    return lab, res


def recipe_sig(recipe):
    from cv.acc import h

    return h(recipe)


# ----------------------------------------------------------------------------
# models with every attribute class, for the I/O properties (C10, C11) and C12
# ----------------------------------------------------------------------------
ID_STYLES = ["plain", "punct", "leading-digit", "unicode", "sbml-prefix-like", "escape-like", "dash-dot", "brackets"]


def style_id(rng, base, style):
    if style == "plain":
        return base
    if style == "punct":
        ch = rng.choice([".", "-", ":", "/", "+", ",", "'", "=", "*", "#", "@", "!", "~"])
        k = rng.randint(1, max(1, len(base) - 1))
        return base[:k] + ch + base[k:]
    if style == "leading-digit":
        return rng.choice(["1", "2", "00"]) + base
    if style == "unicode":
        return base + rng.choice(["é", "β", "ü", "√"])
    if style == "sbml-prefix-like":
        return rng.choice(["R_", "M_", "G_", "_"]) + base
    if style == "escape-like":
        return base + rng.choice(["__46__x", "__45__", "_DOT_y", "__", "___"])
    if style == "dash-dot":
        return base.replace("_", rng.choice(["-", ".", "__"]))
    if style == "brackets":
        return base + rng.choice(["(e)", "[c]", "(1)"])
    return base


ANNOTATIONS = [
    {"kegg.compound": "C00031"},
    {"chebi": ["CHEBI:17634", "CHEBI:4167"], "kegg.compound": "C00031"},
    {"bigg.reaction": "PFK", "ec-code": ["2.7.1.11", "2.7.1.90"]},
    {"sbo": "SBO:0000176"},
    {"sbo": "SBO:0000247", "metanetx.chemical": "MNXM41"},
    {"uniprot": ["P0A796"], "ncbigene": "948412"},
    # several identifiers of one provider, a later one being a prefix / substring of an earlier one
    {"kegg.compound": ["C00236", "C0023"], "pubmed": ["10108", "1010", "101"]},
    {"ec-code": ["1.1.1.10", "1.1.1.1"], "chebi": ["CHEBI:176340", "CHEBI:17634"]},
]
NOTES = [{"note": "plain text"}, {"source": "generated", "confidence": "3"}, {"GENE_ASSOCIATION": "see rule"}]


def io_model(rng, id_styles=None, with_groups=True, finite=False):
    """Returns (model, recipe-with-final-ids).  Every attribute class the I/O properties
    list is populated with some probability."""
    import cobra

    rec = network(rng, size=rng.randint(1, 2), genes=rng.randint(0, 4), finite=finite, gene_ids=rng.sample(AWKWARD_IDS + PLAIN_IDS, 4))
    styles = id_styles or [rng.choice(ID_STYLES) if rng.random() < 0.6 else "plain"]
    # rename ids
    mmap, rmap = {}, {}
    used = set()

    def uniq(x):
        while x in used or not x:
            x += "_"
        used.add(x)
        return x

    for m in rec["mets"]:
        new = style_id(rng, m["id"], rng.choice(styles)) if rng.random() < 0.7 else m["id"]
        mmap[m["id"]] = uniq(new)
    used = set()
    for r in rec["rxns"]:
        new = style_id(rng, r["id"], rng.choice(styles)) if rng.random() < 0.7 else r["id"]
        rmap[r["id"]] = uniq(new)
    for m in rec["mets"]:
        m["id"] = mmap[m["id"]]
    for r in rec["rxns"]:
        r["id"] = rmap[r["id"]]
        r["stoich"] = {mmap[k]: v for k, v in r["stoich"].items()}
    with __import__("warnings").catch_warnings():
        __import__("warnings").simplefilter("ignore")
        model = build(rec)
    model.id = rng.choice(["gen_model", "M", "model_2", "gen_model", "iGEN123", "m-1", "model.v2"])
    if rng.random() < 0.6:
        model.name = rng.choice(["A generated model", "Modèle", "x"])
    if rng.random() < 0.5:
        model.compartments = {"c": "cytosol", "e": rng.choice(["extracellular", "extracellular space"])}
    if rng.random() < 0.4:
        model.notes = dict(rng.choice(NOTES))
    if rng.random() < 0.4:
        model.annotation = dict(rng.choice(ANNOTATIONS))
    for x in list(model.metabolites) + list(model.reactions) + list(model.genes):
        if rng.random() < 0.4:
            x.annotation = {k: (list(v) if isinstance(v, list) else v) for k, v in rng.choice(ANNOTATIONS).items()}
        if rng.random() < 0.3:
            x.notes = dict(rng.choice(NOTES))
    for g in model.genes:
        if rng.random() < 0.5:
            g.name = rng.choice(["pfkA", "gene name", "b0001"])
    for m in model.metabolites:
        if rng.random() < 0.3:
            m.charge = rng.choice([0, -1, 2, -3])
        if rng.random() < 0.2:
            m.formula = rng.choice(["C6H12O6", "H", "C10H12N5O13P3", "Fe"])
    # coefficients that need all 17 significant digits
    ugly = [0.1 + 0.2, 1.0 / 3.0, 59.81, 3.7478, 1e-7, 2.0 / 7.0, 123456.789012345, 0.0709]
    for r in model.reactions:
        if rng.random() < 0.3 and len(r.metabolites):
            m_ = rng.choice(sorted(r.metabolites, key=lambda x: x.id))
            sign = -1 if r.metabolites[m_] < 0 else 1
            r.add_metabolites({m_: sign * rng.choice(ugly)}, combine=False)
    if with_groups and rng.random() < 0.5 and len(model.reactions) > 2:
        kinds = ["collection", "classification", "partonomy"]
        g1 = cobra.core.Group("grp_rxn", name="some reactions", members=rng.sample(list(model.reactions), 2), kind=rng.choice(kinds))
        groups = [g1]
        if rng.random() < 0.5:
            groups.append(cobra.core.Group("grp_met", name="mets", members=rng.sample(list(model.metabolites), min(2, len(model.metabolites))), kind=rng.choice(kinds)))
        if rng.random() < 0.4 and len(model.genes):
            groups.append(cobra.core.Group("grp_gene", name="genes", members=[model.genes[0]], kind=rng.choice(kinds)))
        model.add_groups(groups)
    return model, rec


def reordered_solution(sol, rng, how=None):
    """The same reference solution with its Series in another index order (sorted by id,
    reversed or shuffled): a reference is addressed by reaction id, not by position - users
    rebuild them from files, sort_index() them, or take them from a model with another order."""
    import cobra

    ids = list(sol.fluxes.index)
    how = how or rng.choice(["sorted", "reversed", "shuffled"])
    if how == "sorted":
        new = sorted(ids, reverse=(ids == sorted(ids)))
    elif how == "reversed":
        new = ids[::-1]
    else:
        new = ids[:]
        rng.shuffle(new)
    kw = {}
    if getattr(sol, "reduced_costs", None) is not None:
        kw["reduced_costs"] = sol.reduced_costs.reindex(new)
    if getattr(sol, "shadow_prices", None) is not None:
        kw["shadow_prices"] = sol.shadow_prices
    return cobra.Solution(objective_value=sol.objective_value, status=sol.status, fluxes=sol.fluxes.reindex(new), **kw)


def other_reference(model, rng):
    """A feasible flux distribution that is (in general) neither the FBA vertex nor the pFBA
    solution: the optimum of a random linear objective on a copy.  None when that fails."""
    import cobra

    m = model.copy()
    rxns = list(m.reactions)
    if not rxns:
        return None
    try:
        m.objective = {r: rng.choice([-2, -1, 1, 1, 2]) for r in rng.sample(rxns, min(len(rxns), rng.randint(1, 3)))}
        m.objective_direction = rng.choice(["max", "min"])
        s = m.optimize()
    except Exception:
        return None
    if s.status != "optimal":
        return None
    from cobra.util.solver import linear_reaction_coefficients

    val = sum(k * float(s.fluxes[r.id]) for r, k in linear_reaction_coefficients(model).items())
    return cobra.Solution(objective_value=val, status="optimal", fluxes=s.fluxes.copy())
