"""S7 - PoolTap / TaskTap: observation of process-pool schedules.

PoolTap wraps multiprocessing.pool.Pool.{imap_unordered,imap,map} so that the callable
handed to the pool is replaced by a picklable TaskTap(func, ...).  In the worker the
TaskTap sleeps a seeded 0-5 ms before and after the task (suspension points the pool
already has - between tasks - never inside cobrapy's code), appends one O_APPEND line
per task to an event log, and evaluates a carry-over invariant on the worker's private
model when the module exposes one (`_model`): objective coefficients and bounds after a
task equal those before the worker's first task.  The chunk size can be overridden with
a seeded value.  Because it wraps whatever callable the code passes it does not depend on
private names such as `_fva_step`.
"""
import json
import os
import random
import sys
import time

_WORKER = {}  # per-process: module name -> state at first task


class TaskTap:
    def __init__(self, func, seed, logpath, delays=True):
        self.func = func
        self.seed = seed
        self.logpath = logpath
        self.delays = delays

    def _model_state(self):
        mod = sys.modules.get(self.func.__module__)
        m = getattr(mod, "_model", None) if mod is not None else None
        if m is None or not hasattr(m, "reactions"):
            return None
        try:
            from cobra.util.solver import linear_reaction_coefficients

            obj = {r.id: v for r, v in linear_reaction_coefficients(m).items()}
            # raw objective coefficients as well (FVA writes them directly)
            oc = m.solver.objective.get_linear_coefficients(m.solver.objective.variables)
            raw = sorted((v.name, float(k)) for v, k in oc.items() if k != 0)
            return {"bounds": [(r.id,) + tuple(r.bounds) for r in m.reactions], "obj": obj, "raw_obj": raw, "functional": [(g.id, g.functional) for g in m.genes]}
        except Exception as e:  # pragma: no cover
            return {"error": repr(e)}

    def __call__(self, item):
        pid = os.getpid()
        rng = random.Random(hash((self.seed, repr(item))) & 0xFFFFFFFF)
        key = self.func.__module__ + "." + getattr(self.func, "__name__", "?")
        if (pid, key, self.logpath) not in _WORKER:
            _WORKER[(pid, key, self.logpath)] = self._model_state()
        start = _WORKER[(pid, key, self.logpath)]
        if self.delays:
            time.sleep(rng.random() * 0.005)
        t0 = time.monotonic()
        try:
            res = self.func(item)
            err = None
        except BaseException as e:
            res, err = None, e
        t1 = time.monotonic()
        carry = None
        if start is not None and "error" not in start:
            now = self._model_state()
            if now is not None and "error" not in now:
                diffs = [k for k in ("bounds", "obj", "raw_obj", "functional") if now[k] != start[k]]
                carry = diffs or "ok"
        if self.delays:
            time.sleep(rng.random() * 0.005)
        line = json.dumps({"pid": pid, "task": repr(sorted(item) if isinstance(item, (set, frozenset)) else item), "t0": t0, "t1": t1, "carry": carry, "err": repr(err) if err else None})
        fd = os.open(self.logpath, os.O_WRONLY | os.O_APPEND | os.O_CREAT, 0o600)
        try:
            os.write(fd, (line + "\n").encode())
        finally:
            os.close(fd)
        if err is not None:
            raise err
        return res


class PoolTap:
    """Context manager: while active, pools created by the code under observation run
    their tasks through TaskTap."""

    def __init__(self, seed, logpath, chunk_mode="keep", delays=True):
        self.seed = seed
        self.logpath = logpath
        self.chunk_mode = chunk_mode
        self.delays = delays
        self.calls = []

    def __enter__(self):
        import multiprocessing.pool as mp

        self._mp = mp
        self._orig = {n: getattr(mp.Pool, n) for n in ("imap_unordered", "imap", "map")}
        tap = self

        def wrap(name):
            orig = self._orig[name]

            def method(pool, func, iterable, chunksize=None):
                items = list(iterable)
                n, p = len(items), getattr(pool, "_processes", 1) or 1
                rng = random.Random(hash((tap.seed, name, n)) & 0xFFFFFFFF)
                cs = chunksize
                if tap.chunk_mode == "seeded" and n:
                    cs = rng.choice([1, 2, max(1, n // p), n])
                elif tap.chunk_mode == "one":
                    cs = 1
                tap.calls.append({"method": name, "n_tasks": n, "processes": p, "chunksize_requested": chunksize, "chunksize_used": cs})
                t = TaskTap(func, tap.seed, tap.logpath, tap.delays)
                if cs is None:
                    return orig(pool, t, items)
                return orig(pool, t, items, cs)

            return method

        for n in self._orig:
            setattr(mp.Pool, n, wrap(n))
        return self

    def __exit__(self, *a):
        for n, f in self._orig.items():
            setattr(self._mp.Pool, n, f)
        return False

    def events(self):
        out = []
        if os.path.exists(self.logpath):
            with open(self.logpath) as f:
                for line in f:
                    try:
                        out.append(json.loads(line))
                    except Exception:
                        pass
        return out
