#!/bin/sh
# MANIFEST.setup_cmd: offline; installs the runtime-contract libraries beside the
# repository's interpreter (target dir, /venv itself is left untouched).
HERE=$(cd "$(dirname "$0")" && pwd)
/venv/bin/pip install -q --no-index --find-links /opt/veriftools/wheels \
    --target "$HERE/.deps" --upgrade icontract jsonschema
/venv/bin/python -c "import sys; sys.path.insert(0,'$HERE/.deps'); import icontract, jsonschema; import cobra; print('setup ok', cobra.__file__)"
